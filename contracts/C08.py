"""C08 — rule trees follow except-if / else-if / also-if semantics.

Deductive part: heap-shape contracts on the tree surgery (rule.refinement, rule.alternative_or_next and the helpers they call,
SymbolicExpression.__enter__/_parent_ setter, BinaryOperator.__post_init__).  The real functions are executed on every
*local shape* of a partially built tree: the node on the expression stack and the chain of its ancestors, generated lazily
and nondeterministically from {query descriptor, ExceptIf (left | right), Alternative (left | right), Next (left | right)} up
to 4 ancestors — the functions never look further than the chain they climb.  Abstract view: the EVALUATION tree (what
_evaluate__ follows: QueryObjectDescriptor._child_, BinaryOperator.left/right), not the display graph.
Posts:  (i) nothing is lost — every evaluation edge that existed before still exists or its old target is the left operand
of the new selector that now sits in its place;  (ii) the new selector is ExceptIf(current, branch) in the evaluation
position of `current` for a refinement, Alternative/Next(top-of-rule, branch) in the evaluation position of the top of the
rule (current climbed over its refinements and its else-if / also-if chain) otherwise;  (iii) the node returned is the new
branch (later conclusions attach to it).
Selection at evaluation time: step lemmas of ExceptIf / Alternative / Next._evaluate__ (with the real ElseIf / Union / OR bodies
below them) over abstract operands (streams of any length with arbitrary truth flags): which operand's result is passed on,
under whose bindings the other operand is evaluated, and whose conclusions are selected for each output - except-if: the
exception's true results replace the rule's, the rule concludes iff the exception has no true result (inductive invariant
right_yielded <=> a true result was seen); else-if: first branch that holds; also-if: every branch that holds, for the outputs
that stem from it (invariants on OR.left_evaluated / right_evaluated).  update_conclusion's own de-duplication and the
construction of instances from the triggering binding are decided by the bounded reference-interpreter driver only.
"""
from __future__ import annotations
import itertools
import z3

from pyvc.framework import Harness
from pyvc.interp import Spec, PyRaise, INLINE
from pyvc.values import Obj, PyList, PySet, Builtin, Opaque, GenObj
from pyvc.ops import make_dict

PROPERTY = "C08"
SYM = "krrood.entity_query_language.symbolic"
RULE = "krrood.entity_query_language.rule"
CS = "krrood.entity_query_language.conclusion_selector"
FUNCTIONS = [(CS, "ExceptIf._evaluate__"), (CS, "ExceptIf.yield_and_update_conclusion"), (CS, "Alternative._evaluate__"), (CS, "Next._evaluate__"),
             (SYM, "ElseIf._evaluate__"), (SYM, "Union._evaluate__"), (SYM, "OR.evaluate_left"), (SYM, "OR.evaluate_right"),
             (RULE, "refinement"), (RULE, "alternative_or_next"), (RULE, "alternative"), (RULE, "next_rule"), (RULE, "_replace_operand"),
             (SYM, "chained_logic"), (SYM, "SymbolicExpression._current_parent_"), (SYM, "BinaryOperator.__post_init__"),
             (SYM, "SymbolicExpression.__post_init__"), (SYM, "SymbolicExpression._update_children_")]
ASSUMPTIONS = [
    "RWXNode (display graph node) behaves like a record with a `parent` field (its rustworkx bookkeeping is not part of the "
    "evaluation tree)",
    "rule trees are trees: evaluating one operand of a selector does not write the other operand's truth flag",
    "the partially built tree is well formed: a binary selector's operands have it as parent; the local shape (the stack top "
    "and up to 4 ancestors) is enumerated exhaustively, deeper chains are not explored (shape-bounded)",
]
TRUSTED = ["RWXNode abstraction"]
BOUNDED_ONLY_CLAUSES = ["ancestor chains longer than 4 are not explored by the surgery obligations",
                        "update_conclusion's de-duplication and instance construction from the triggering binding: bounded reference "
                        "RDR interpreter driver only (the selectors' step lemmas use update_conclusion's contract)"]

KINDS = ["descriptor", "ExceptIf-left", "ExceptIf-right", "Alternative-left", "Alternative-right", "Next-left", "Next-right"]


class Forest:
    """A partially built tree: nodes with evaluation operands; ancestors of the stack top generated on demand."""

    def __init__(self, vm, max_up=4):
        self.vm, self.max_up = vm, max_up
        self.nodes = []
        self.shape = []
        NodeCls = vm.loader.cls("krrood.entity_query_language.rxnode", "RWXNode")

        def mk_rwx(it, a, k):
            o = it.alloc(NodeCls, {"parent_field": None, "data": k.get("data"), "weight": "", "name": a[1] if len(a) > 1 else k.get("name")}, tag="rwx")
            return o
        vm.spec.stubs["RWXNode.__call__"] = mk_rwx
        vm.spec.attr_hooks[("RWXNode", "parent")] = lambda it, o: o.fields["parent_field"]
        vm.spec.stubs["RWXNode.parent@setter"] = lambda it, a, k: a[0].fields.__setitem__("parent_field", a[1])
        vm.spec.attr_hooks[("RWXNode", "root")] = lambda it, o: self._root(o)
        vm.spec.attr_hooks[("SymbolicExpression", "_name_")] = lambda it, o: "node"
        vm.spec.attr_hooks[("SymbolicExpression", "_plot_color_")] = lambda it, o: None
        from pyvc.repo import ClassInfo as _CI
        vm.spec.stubs["IDGenerator.__call__"] = lambda it, a, k: INLINE if isinstance(a[0], _CI) else 1000 + len(it.heap)
        self.NodeCls = NodeCls

    def _root(self, rwx):
        while rwx.fields["parent_field"] is not None:
            rwx = rwx.fields["parent_field"]
        return rwx

    def node(self, cls_name, tag, **fields):
        vm = self.vm
        o = vm.alloc(vm.loader.cls(SYM if cls_name not in ("ExceptIf", "Alternative", "Next") else CS, cls_name),
                     {"_id_": 100 + len(self.nodes), "_conclusion_": PySet(), "_eval_parent_": None, "_is_false_": False, **fields}, tag=tag)
        o.fields["_node_"] = vm.alloc(self.NodeCls, {"parent_field": None, "data": o, "weight": ""}, tag=f"rwx-{tag}")
        self.nodes.append(o)
        return o

    def link(self, parent, child, slot):
        parent.fields[slot] = child
        child.fields["_node_"].fields["parent_field"] = parent.fields["_node_"]
        if slot in ("left", "right"):
            parent.fields.setdefault("_child_", None)

    def grow(self, bottom):
        """choose the ancestors of `bottom` nondeterministically (well-formed chain ending in the query descriptor)."""
        ctx = self.vm.ctx
        cur = bottom
        for depth in range(self.max_up):
            k = ctx.choice(len(KINDS), f"ancestor-{depth}")
            kind = KINDS[k]
            self.shape.append(kind)
            if kind == "descriptor":
                d = self.node("SetOf", "descriptor", selected_variables=PyList([]), _child_=None)
                self.link(d, cur, "_child_")
                return d
            cls_name, side = kind.split("-")
            p = self.node(cls_name, f"{kind}@{depth}", left=None, right=None, _child_=None, left_evaluated=False, right_evaluated=False)
            sib = self.node("SymbolicExpression", f"sibling@{depth}")
            self.link(p, cur, side)
            self.link(p, sib, "right" if side == "left" else "left")
            cur = p
        d = self.node("SetOf", "descriptor", selected_variables=PyList([]), _child_=None)
        self.link(d, cur, "_child_")
        return d

    def edges(self):
        out = []
        for n in self.vm.heap:
            if not isinstance(n, Obj) or not hasattr(n.cls, "name"):
                continue
            for slot in ("left", "right", "_child_"):
                v = n.fields.get(slot)
                if isinstance(v, Obj) and "_node_" in v.fields and (slot != "_child_" or n.cls.name in ("SetOf", "Entity")):
                    out.append((n, slot, v))
        return out


def climbed(cur, for_refinement):
    """the node the new selector takes as its left operand, per the RDR reading of the property"""
    if for_refinement:
        return cur

    def parent_of(n):
        p = n.fields["_node_"].fields["parent_field"]
        return p.fields["data"] if p is not None else None
    while True:
        p = parent_of(cur)
        if p is None:
            return cur
        nm = p.cls.name
        if nm in ("Alternative", "Next"):
            cur = p
        elif nm == "ExceptIf" and p.fields.get("left") is cur:
            cur = p
        else:
            return cur


def surgery_harness(op, max_up=4):
    def run(vm):
        ctx = vm.ctx
        forest = Forest(vm, max_up=max_up)
        cur = forest.node("SymbolicExpression", "stack-top")
        top = forest.grow(cur)
        ctx.inputs["shape"] = list(forest.shape)
        # the tree may have been evaluated before it is extended: every node then still carries the parent under which that
        # evaluation reached it (= its tree parent at that time)
        evaluated_before = bool(ctx.choice(2, "evaluated-before"))
        ctx.inputs["evaluated_before"] = evaluated_before
        if evaluated_before:
            for n in forest.nodes:
                pf = n.fields["_node_"].fields["parent_field"]
                n.fields["_eval_parent_"] = pf.fields["data"] if pf is not None else None
        stack = PyList([cur])
        vm.loader.cls(SYM, "SymbolicExpression").class_attr_vals["_symbolic_expression_stack_"] = stack
        vm.loader.cls(SYM, "SymbolicExpression").class_attr_vals["_id_expression_map_"] = make_dict([])
        before = forest.edges()
        cond = forest.node("SymbolicExpression", "new-condition")
        target = climbed(cur, op == "refinement")
        slot_before = next(((p, s) for p, s, v in before if v is target), None)
        fn = vm.module_global(RULE, op)
        r = vm.call(fn, [cond], {})
        ctx.cover("returned")
        shape = "/".join(forest.shape)
        prefix = f"rule.{op}"
        want_cls = {"refinement": "ExceptIf", "alternative": "Alternative", "next_rule": "Next"}[op]
        # (iii) the returned node is the new branch
        ctx.check(f"{prefix}::returns-the-new-branch", z3.BoolVal(r is cond), detail=shape)
        # (ii) the new selector sits in the evaluation position of the (top of the) current rule
        new_root = None
        if slot_before is not None:
            new_root = slot_before[0].fields.get(slot_before[1])
        ok2 = (isinstance(new_root, Obj) and new_root.cls.name == want_cls and new_root.fields.get("left") is target and new_root.fields.get("right") is cond)
        ctx.check(f"{prefix}::new-selector-takes-the-evaluation-position-of-the-current-rule", z3.BoolVal(bool(ok2)),
                  detail=f"shape (stack top upwards) {shape}: slot {slot_before[1] if slot_before else None} of {slot_before[0] if slot_before else None} now holds {new_root!r} (left={new_root.fields.get('left') if isinstance(new_root, Obj) else None})")
        # (i) nothing is lost
        lost = []
        for p, s, v in before:
            now = p.fields.get(s)
            if now is v:
                continue
            if isinstance(now, Obj) and now.fields.get("left") is v and now.cls.name == want_cls and v is target:
                continue
            lost.append((p, s, v, now))
        ctx.check(f"{prefix}::no-written-branch-is-dropped-from-the-evaluation-tree", z3.BoolVal(not lost), detail=f"shape {shape}: {lost}")
        # display parents agree with the evaluation tree for the touched nodes
        if ok2:
            okp = (new_root.fields["_node_"].fields["parent_field"] is slot_before[0].fields["_node_"]
                   and target.fields["_node_"].fields["parent_field"] is new_root.fields["_node_"]
                   and cond.fields["_node_"].fields["parent_field"] is new_root.fields["_node_"])
            ctx.check(f"{prefix}::parent-pointers-follow-the-evaluation-tree", z3.BoolVal(okp), detail=shape)
            # ... also as the NEXT construction step reads them (through the real _parent_ property), whatever an earlier
            # evaluation left on the nodes
            seen = (vm._getattr(target, "_parent_"), vm._getattr(new_root, "_parent_"))
            ctx.check(f"{prefix}::the-next-step-reads-the-rebuilt-tree-not-an-earlier-evaluation", z3.BoolVal(seen[0] is new_root and seen[1] is slot_before[0]),
                      detail=f"shape {shape}, evaluated before: {evaluated_before}: _parent_ of the re-parented node reads {seen[0]!r}, of the new selector {seen[1]!r}")
    return Harness(f"surgery-{op}", run, spec=Spec(), covers=["returned"], max_paths=60000)


def h_enter_exit():
    """with-blocks: __enter__ pushes the node (the cached conditions root for the query itself), __exit__ pops it."""
    def run(vm):
        ctx = vm.ctx
        forest = Forest(vm)
        SE = vm.loader.cls(SYM, "SymbolicExpression")
        stack = PyList([])
        SE.class_attr_vals["_symbolic_expression_stack_"] = stack
        root = forest.node("An", "query")
        desc = forest.node("SetOf", "descriptor", selected_variables=PyList([]), _child_=None)
        cond = forest.node("SymbolicExpression", "conditions")
        forest.link(root, desc, "_child_")
        branch = forest.node("SymbolicExpression", "some-branch")
        sel = forest.node("ExceptIf", "selector", left=cond, right=branch, _child_=None)
        forest.link(desc, sel, "_child_")
        forest.link(sel, cond, "left")
        forest.link(sel, branch, "right")
        for n in (root, desc):
            n.fields["_conditions_root_"] = cond
        vm.call_method(root, "__enter__")
        ok1 = stack.items == [cond]
        vm.call_method(branch, "__enter__")
        ok2 = stack.items == [cond, branch]
        vm.call_method(branch, "__exit__", None, None, None)
        vm.call_method(root, "__exit__", None, None, None)
        ctx.check("SymbolicExpression.__enter__/__exit__::stack-discipline", z3.BoolVal(ok1 and ok2 and stack.items == []), detail=repr(stack.items))
        ctx.check("SymbolicExpression._current_parent_::is-the-stack-top", z3.BoolVal(vm.call(vm._getattr(SE, "_current_parent_"), [], {}) is None))
        # a rule tree written in SEVERAL with-blocks: the first block adds a branch (the real rule functions re-parent the
        # conditions), a later `with query:` enters the base rule again -- what is written there belongs to the base rule
        for op in ("refinement", "alternative", "next_rule"):
            forest2 = Forest(vm)
            stack2 = PyList([])
            SE.class_attr_vals["_symbolic_expression_stack_"] = stack2
            SE.class_attr_vals["_id_expression_map_"] = make_dict([])
            q = forest2.node("An", "query")
            d = forest2.node("SetOf", "descriptor", selected_variables=PyList([]), _child_=None)
            base = forest2.node("SymbolicExpression", "base-conditions")
            forest2.link(q, d, "_child_")
            forest2.link(d, base, "_child_")
            vm.call_method(q, "__enter__")                       # the conditions root is found by the real property here
            first = list(stack2.items)
            new_branch = forest2.node("SymbolicExpression", "new-branch")
            vm.call(vm.module_global(RULE, op), [new_branch], {})
            vm.call_method(q, "__exit__", None, None, None)
            vm.call_method(q, "__enter__")
            second = list(stack2.items)
            vm.call_method(q, "__exit__", None, None, None)
            ctx.check("SymbolicExpression.__enter__::a-later-with-block-of-the-query-enters-the-base-rule-again",
                      z3.BoolVal(first == [base] and second == [base] and stack2.items == []), detail=f"after {op}: first block entered {first}, second block entered {second}")
    return Harness("enter-exit", run, spec=Spec())


# ====================================================================== selection at evaluation time
class SelWorld:
    """abstract operands of a conclusion selector: each evaluation of an operand is a stream of results (any length) whose truth
    flags are arbitrary; the operand sets its own flag before it yields (snapshot rule)"""

    def __init__(self, vm, cname, operand_cls=None):
        self.vm = vm
        ctx = vm.ctx
        self.OR = vm.loader.cls(SYM, "OperationResult")
        self.last = {}            # operand name -> last result it produced
        self.calls = []           # (operand name, incoming bindings)
        self.updates = []         # (output result, conclusion set) of every update_conclusion call
        self.trues = {}           # operand name -> ghost key counting its true results in the current evaluation
        SE = vm.loader.cls(SYM, "SymbolicExpression")
        # the operands are arbitrary rule (sub)trees: plain conditions, or selectors themselves (sibling refinements nest on the left
        # of each other, a refinement may head an else-if chain, ...); their own operands carry OTHER conclusions
        OC = vm.loader.cls(CS, operand_cls) if operand_cls else SE
        inner = lambda side: {} if not operand_cls else {
            "left": vm.alloc(SE, {"_id_": 21, "_is_false_": False, "_conclusion_": PySet([f"conclusion-of-the-{side}-operands-own-left"])}, tag=f"{side}.left"),
            "right": vm.alloc(SE, {"_id_": 22, "_is_false_": False, "_conclusion_": PySet([f"conclusion-of-the-{side}-operands-own-right"])}, tag=f"{side}.right")}
        self.left = vm.alloc(OC, {"_id_": 11, "_is_false_": False, "_conclusion_": PySet(["left-conclusion"]), **inner("left")}, tag="left")
        self.right = vm.alloc(OC, {"_id_": 12, "_is_false_": False, "_conclusion_": PySet(["right-conclusion"]), **inner("right")}, tag="right")
        if operand_cls:
            vm.spec.stubs[f"{operand_cls}._evaluate__"] = self.child_evaluate
        self.node = vm.alloc(vm.loader.cls(CS, cname), {"left": self.left, "right": self.right, "_id_": 10, "_is_false_": False, "_eval_parent_": None,
                                                         "left_evaluated": False, "right_evaluated": False, "_conclusion_": PySet([])}, tag=cname)
        vm.spec.havoc_exclude = set(getattr(vm.spec, "havoc_exclude", ())) | {"_eval_parent_"}
        vm.spec.stubs["SymbolicExpression._evaluate__"] = self.child_evaluate
        vm.spec.stubs["ConclusionSelector.update_conclusion"] = self.update_conclusion
        vm.spec.opaque_hooks["havoc_container"] = lambda it, old, name: old
        from pyvc.interp import LoopSpec
        from pyvc.values import SBool

        def flag_is_false(field):
            def inv(it, fr):
                v = self.node.fields[field]
                return z3.Not(v.t) if isinstance(v, SBool) else z3.BoolVal(v is False)
            return inv
        # OR keeps which operand the current output stems from in two flags; their discipline is the loops' invariant
        vm.spec.loops[("OR.evaluate_left", 0)] = LoopSpec(inv=flag_is_false("right_evaluated"))
        vm.spec.loops[("OR.evaluate_right", 0)] = LoopSpec(inv=flag_is_false("left_evaluated"))
        # ... and keyed by WHAT is iterated (the operand's result stream), should the loops move into helpers / a mixin
        vm.spec.stream_loops["left@"] = vm.spec.loops[("OR.evaluate_left", 0)]
        vm.spec.stream_loops["right@"] = vm.spec.loops[("OR.evaluate_right", 0)]

    def child_evaluate(self, vm, args, kwargs):
        from pyvc.values import SymStream
        selfo = args[0]
        if selfo not in (self.left, self.right):
            return INLINE
        name = selfo.tag
        src = args[1] if len(args) > 1 else kwargs.get("sources")
        self.calls.append((name, src))
        gkey = f"trues_{name}_{len(self.calls)}"
        vm.ctx.ghost[gkey] = 0
        self.trues[name] = gkey
        W = self

        def elem(it, idx):
            false_flag = bool(it.ctx.choice(2, f"flag-{name}"))
            if name == "right" and "left" in W.last:
                # frame assumption (tree-shaped rule trees): evaluating the right operand does not write the left operand's flag
                W.left.fields["_is_false_"] = W.last["left"].fields["is_false"]
            b = it.alloc(it.ext("object"), {"from": name, "under": src}, tag=f"bindings-of-{name}")
            r = it.alloc(W.OR, {"bindings": b, "is_false": false_flag, "operand": selfo}, tag=f"result-of-{name}")
            selfo.fields["_is_false_"] = false_flag
            W.last[name] = r
            if not false_flag:
                it.ctx.ghost_add(gkey)
            return r
        return SymStream(f"{name}@{len(self.calls)}", elem, length=None, meta={"kind": "generator"})

    def update_conclusion(self, vm, args, kwargs):
        selfo, output, conclusions = args[0], args[1], args[2]
        self.updates.append((output, conclusions))
        # contract of update_conclusion: the conclusions become the node's selection unless this combination was concluded before
        if vm.ctx.choice(2, "concluded-before?") == 0 and isinstance(conclusions, PySet):
            for c in conclusions.items:
                if c not in selfo.fields["_conclusion_"].items:
                    selfo.fields["_conclusion_"].items.append(c)
        return None

    def ghost_true_count(self, name):
        v = self.vm.ctx.ghost.get(self.trues.get(name), 0)
        return z3.IntVal(v) if isinstance(v, int) else v


def count_inner_outputs(vm, base_cls_name, counter):
    """wrap the real <base>._evaluate__ (the else-if / union the selector extends): every result it hands to the selector is counted"""
    from pyvc.ctx import PathEnd, Unsupported
    # the class below the selector in its MRO that defines _evaluate__ (today: ElseIf for Alternative, Union for Next)
    sel = vm.loader.cls(CS, base_cls_name)
    base = next((c for c in sel.mro(vm.loader)[1:] if hasattr(c, "methods") and "_evaluate__" in c.methods), None)
    if base is None:
        raise Unsupported(f"no class below {base_cls_name} defines _evaluate__")
    base_cls_name = base.name
    real = base.methods["_evaluate__"]

    def wrapped(it, a, k):
        key = f"{base_cls_name}._evaluate__"
        me = it.spec.stubs.pop(key)
        try:
            inner = it.call_func(real, list(a), dict(k))
        finally:
            it.spec.stubs[key] = me

        def counting():
            for out in it.iterate(inner):
                counter.append(out)
                yield out
        return GenObj(counting(), f"counted-{base_cls_name}")
    vm.spec.stubs[f"{base_cls_name}._evaluate__"] = wrapped


def _evaluation_start():
    """what a selector forgets when an evaluation starts (C03's contract on the same real ConclusionSelector._start_evaluation_):
    the de-duplication records are part of which conclusion is selected"""
    from .C03 import h_evaluation_start
    return h_evaluation_start()


def h_except_if(operand_cls=None):
    """ExceptIf: a false left result passes through; for a true left result every true result of the exception replaces it
    (with the exception's conclusions), and the left result itself (with its conclusions) is yielded iff the exception has none."""
    def run(vm):
        ctx = vm.ctx
        W = SelWorld(vm, "ExceptIf", operand_cls)

        def inv_right(it, fr):
            # "the boolean local of the frame" (the flag that remembers whether the exception produced a true result), whatever it is called
            from pyvc.values import SBool as _SB
            targets = [n for o in range(4) for n in it.loop_targets(fr, o)]
            flags = [v for k, v in fr.locals.items() if isinstance(v, (bool, _SB)) and k not in targets]
            if len(flags) != 1:
                from pyvc.ctx import Unsupported
                raise Unsupported(f"ExceptIf invariant: expected one boolean local (the 'exception matched' flag), found {len(flags)}")
            ry = flags[0]
            cnt = W.ghost_true_count("right")
            from pyvc.values import SBool
            ryt = ry.t if isinstance(ry, SBool) else z3.BoolVal(bool(ry))
            return z3.And(cnt >= 0, ryt == (cnt > 0))
        from pyvc.interp import LoopSpec
        vm.spec.loops[("ExceptIf._evaluate__", 1)] = LoopSpec(inv=inv_right)
        vm.spec.stream_loops["right@"] = vm.spec.loops[("ExceptIf._evaluate__", 1)]
        vm.spec.stream_loops.pop("left@", None)          # ExceptIf's loop over the rule's results needs no invariant
        src = vm.alloc(vm.ext("object"), {}, tag="incoming-bindings")
        n_updates = 0
        for res in vm.iterate(vm.call_method(W.node, "_evaluate__", src)):
            ctx.cover("yielded")
            l, r = W.last.get("left"), W.last.get("right")
            new_updates = W.updates[n_updates:]
            n_updates = len(W.updates)
            if l is not None and res is l:
                ctx.check("ExceptIf._evaluate__::a-false-left-result-passes-through-untouched", z3.BoolVal(l.fields["is_false"] is True and not new_updates))
                ctx.cover("left-false")
                continue
            ctx.check("ExceptIf._evaluate__::every-other-output-is-a-true-result-of-the-selector", z3.BoolVal(res.fields["is_false"] is False and res.fields["operand"] is W.node))
            b = res.fields["bindings"]
            if r is not None and b is r.fields["bindings"]:
                ok = r.fields["is_false"] is False and l.fields["is_false"] is False and r.fields["bindings"].fields["under"] is l.fields["bindings"]
                ctx.check("ExceptIf._evaluate__::the-exception-replaces-the-rule-only-with-its-own-true-results-under-the-rules-bindings", z3.BoolVal(ok))
                ctx.check("ExceptIf._evaluate__::the-exceptions-conclusions-are-selected-for-that-output",
                          z3.BoolVal(len(new_updates) == 1 and new_updates[0][0] is r and new_updates[0][1] is W.right.fields["_conclusion_"]), detail=repr(new_updates))
                ctx.cover("exception")
            elif l is not None and b is l.fields["bindings"]:
                ctx.check("ExceptIf._evaluate__::the-rule-itself-concludes-only-when-the-exception-has-no-true-result",
                          z3.And(z3.BoolVal(l.fields["is_false"] is False), W.ghost_true_count("right") == 0))
                ctx.check("ExceptIf._evaluate__::the-rules-conclusions-are-selected-for-that-output",
                          z3.BoolVal(len(new_updates) == 1 and new_updates[0][0] is l and new_updates[0][1] is W.left.fields["_conclusion_"]), detail=repr(new_updates))
                ctx.cover("rule")
            else:
                ctx.fail("ExceptIf._evaluate__::every-output-stems-from-a-result-of-an-operand")
            ctx.check("ExceptIf._evaluate__::the-exception-is-evaluated-under-the-bindings-of-the-current-rule-result",
                      z3.BoolVal(all(c[1] is src for c in W.calls if c[0] == "left") and all(c[0] != "right" or c[1] is not src for c in W.calls)))
    return Harness("select-ExceptIf" + (f"[operands:{operand_cls}]" if operand_cls else ""), run, spec=Spec(), covers=["yielded", "left-false", "exception", "rule"], max_paths=400)


def h_alternative(operand_cls=None):
    """Alternative (else-if): the first operand that holds provides the conclusions; the second is consulted only when the first is false."""
    def run(vm):
        ctx = vm.ctx
        W = SelWorld(vm, "Alternative", operand_cls)
        src = vm.alloc(vm.ext("object"), {}, tag="incoming-bindings")
        n_updates = 0
        handed, passed = [], []
        count_inner_outputs(vm, "Alternative", handed)
        from pyvc.ctx import PathEnd as _PathEnd

        def all_results():
            it_ = vm.iterate(vm.call_method(W.node, "_evaluate__", src))
            while True:
                try:
                    res_ = next(it_)
                except StopIteration:
                    break
                except _PathEnd:
                    # the path is cut after an arbitrary iteration: whatever the else-if handed over so far has been passed on
                    ctx.check("Alternative._evaluate__::every-result-of-the-else-if-is-passed-on-whether-or-not-it-selects-new-conclusions",
                              z3.BoolVal(len(passed) == len(handed)), detail=f"{len(handed)} results of the else-if, {len(passed)} outputs")
                    raise
                passed.append(res_)
                yield res_
            ctx.check("Alternative._evaluate__::every-result-of-the-else-if-is-passed-on-whether-or-not-it-selects-new-conclusions",
                      z3.BoolVal(len(passed) == len(handed)), detail=f"{len(handed)} results of the else-if, {len(passed)} outputs")
        for res in all_results():
            ctx.cover("yielded")
            l, r = W.last.get("left"), W.last.get("right")
            new_updates = W.updates[n_updates:]
            n_updates = len(W.updates)
            b = res.fields["bindings"]
            ctx.check("Alternative._evaluate__::outputs-belong-to-the-selector", z3.BoolVal(res.fields["operand"] is W.node))
            if b is l.fields["bindings"]:
                ok = l.fields["is_false"] is False and res.fields["is_false"] is False
                ctx.check("Alternative._evaluate__::a-result-of-the-first-branch-is-passed-on-only-when-it-holds", z3.BoolVal(ok))
                ctx.check("Alternative._evaluate__::then-the-first-branchs-conclusions-are-selected",
                          z3.BoolVal(len(new_updates) == 1 and new_updates[0][1] is W.left.fields["_conclusion_"]), detail=repr(new_updates))
                ctx.cover("first")
            elif r is not None and b is r.fields["bindings"]:
                under_ok = l.fields["is_false"] is True and r.fields["bindings"].fields["under"] is l.fields["bindings"]
                ctx.check("Alternative._evaluate__::the-second-branch-is-consulted-only-where-the-first-is-false-under-its-bindings", z3.BoolVal(under_ok))
                ctx.check("Alternative._evaluate__::the-output-is-true-iff-the-second-branch-holds", z3.BoolVal(res.fields["is_false"] is r.fields["is_false"]))
                if r.fields["is_false"] is False:
                    ctx.check("Alternative._evaluate__::then-the-second-branchs-conclusions-are-selected",
                              z3.BoolVal(len(new_updates) == 1 and new_updates[0][1] is W.right.fields["_conclusion_"]), detail=repr(new_updates))
                    ctx.cover("second")
                else:
                    ctx.check("Alternative._evaluate__::no-conclusions-when-neither-branch-holds", z3.BoolVal(not new_updates), detail=repr(new_updates))
                    ctx.cover("neither")
            else:
                ctx.fail("Alternative._evaluate__::every-output-stems-from-a-result-of-an-operand")
    return Harness("select-Alternative" + (f"[operands:{operand_cls}]" if operand_cls else ""), run, spec=Spec(), covers=["yielded", "first", "second", "neither"], max_paths=400)


def h_next():
    """Next (also-if): every branch that holds contributes its conclusions to the outputs that stem from it."""
    def run(vm):
        ctx = vm.ctx
        W = SelWorld(vm, "Next")
        src = vm.alloc(vm.ext("object"), {}, tag="incoming-bindings")
        n_updates = 0
        handed, passed = [], []
        count_inner_outputs(vm, "Next", handed)
        from pyvc.ctx import PathEnd as _PathEnd

        def all_results():
            it_ = vm.iterate(vm.call_method(W.node, "_evaluate__", src))
            while True:
                try:
                    res_ = next(it_)
                except StopIteration:
                    break
                except _PathEnd:
                    ctx.check("Next._evaluate__::every-result-of-the-union-is-passed-on-whether-or-not-it-selects-new-conclusions",
                              z3.BoolVal(len(passed) == len(handed)), detail=f"{len(handed)} results of the union, {len(passed)} outputs")
                    raise
                passed.append(res_)
                yield res_
            ctx.check("Next._evaluate__::every-result-of-the-union-is-passed-on-whether-or-not-it-selects-new-conclusions",
                      z3.BoolVal(len(passed) == len(handed)), detail=f"{len(handed)} results of the union, {len(passed)} outputs")
            # the evaluation ran to its end: the next rule has ALSO been evaluated on its own, under the incoming bindings -- whatever the
            # first rule did (held, failed, or had nothing to range over at all)
            ctx.check("Next._evaluate__::the-next-rule-is-evaluated-on-its-own-whatever-the-first-rule-did",
                      z3.BoolVal(any(n_ == "right" and s_ is src for n_, s_ in W.calls)), detail=repr([(n_, getattr(s_, "tag", s_)) for n_, s_ in W.calls]))
        for res in all_results():
            ctx.cover("yielded")
            l, r = W.last.get("left"), W.last.get("right")
            new_updates = W.updates[n_updates:]
            n_updates = len(W.updates)
            b = res.fields["bindings"]
            selected = [u[1] for u in new_updates]
            if res.fields["is_false"] is not False:
                ctx.cover("false-output")
                continue
            if l is not None and b is l.fields["bindings"]:
                ctx.check("Next._evaluate__::a-true-output-from-the-first-rule-carries-exactly-its-conclusions",
                          z3.BoolVal(l.fields["is_false"] is False and len(selected) == 1 and selected[0] is W.left.fields["_conclusion_"]), detail=repr(new_updates))
                ctx.cover("first")
            elif r is not None and b is r.fields["bindings"]:
                ctx.check("Next._evaluate__::a-true-output-from-the-next-rule-carries-exactly-its-conclusions",
                          z3.BoolVal(r.fields["is_false"] is False and len(selected) == 1 and selected[0] is W.right.fields["_conclusion_"]), detail=repr(new_updates))
                ctx.cover("next")
            else:
                ctx.fail("Next._evaluate__::every-output-stems-from-a-result-of-an-operand")
    return Harness("select-Next", run, spec=Spec(), covers=["yielded", "first", "next"], max_paths=600)


def h_canary():
    def run(vm):
        forest = Forest(vm, max_up=1)
        cur = forest.node("SymbolicExpression", "stack-top")
        forest.grow(cur)
        vm.loader.cls(SYM, "SymbolicExpression").class_attr_vals["_symbolic_expression_stack_"] = PyList([cur])
        vm.loader.cls(SYM, "SymbolicExpression").class_attr_vals["_id_expression_map_"] = make_dict([])
        cond = forest.node("SymbolicExpression", "new-condition")
        r = vm.call(vm.module_global(RULE, "refinement"), [cond], {})
        # deliberately false: claims refinement returns the old node
        vm.ctx.check("CANARY", z3.BoolVal(r is cur))
    return Harness("canary", run, expect_fail=True)


def harnesses():
    return [surgery_harness("refinement"), surgery_harness("alternative"), surgery_harness("next_rule"), h_enter_exit(),
            _evaluation_start(), h_except_if(), h_except_if("ExceptIf"), h_except_if("Alternative"), h_alternative(), h_alternative("ExceptIf"), h_next(), h_canary()]


def harnesses_thorough():
    """thorough tier: local shapes with up to 5 ancestors (19608 shapes per builder)"""
    hs = harnesses()
    return [surgery_harness(op, max_up=5) for op in ("refinement", "alternative", "next_rule")] + hs[3:]
