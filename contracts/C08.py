"""C08 — rule trees follow except-if / else-if / also-if semantics.

Deductive part: heap-shape contracts on the tree surgery (rule.refinement, rule.alternative_or_next and the helpers they call,
SymbolicExpression.__enter__/_parent_ setter, BinaryOperator.__post_init__).  The real functions are executed on every
*local shape* of a partially built tree: the node on the expression stack and the chain of its ancestors, generated lazily
and nondeterministically from {query descriptor, ExceptIf (left | right), Alternative (left | right), Next (left | right)} up
to 4 ancestors — the functions never look further than the chain they climb.  Abstract view: the EVALUATION tree (what
_evaluate__ follows: QueryObjectDescriptor._child_, BinaryOperator.left/right), not the display graph.
Posts:  (i) nothing is lost — every evaluation edge that existed before still exists or its old target is the left operand
of the new selector that now sits in its place;  (ii) the new selector is ExceptIf(current, branch) in the evaluation
position of `current` for a refinement, Alternative/Next(top-of-rule, branch) in the evaluation position of the top of the
rule (current climbed over its refinements and its else-if / also-if chain) otherwise;  (iii) the node returned is the new
branch (later conclusions attach to it).
The selection performed at evaluation time (ExceptIf / Alternative / Next._evaluate__, update_conclusion) and the
construction of instances from the triggering binding are decided by the bounded reference-interpreter driver only.
"""
from __future__ import annotations
import itertools
import z3

from pyvc.framework import Harness
from pyvc.interp import Spec, PyRaise, INLINE
from pyvc.values import Obj, PyList, PySet, Builtin, Opaque
from pyvc.ops import make_dict

PROPERTY = "C08"
SYM = "krrood.entity_query_language.symbolic"
RULE = "krrood.entity_query_language.rule"
CS = "krrood.entity_query_language.conclusion_selector"
FUNCTIONS = [(RULE, "refinement"), (RULE, "alternative_or_next"), (RULE, "alternative"), (RULE, "next_rule"), (RULE, "_replace_operand"),
             (SYM, "chained_logic"), (SYM, "SymbolicExpression._current_parent_"), (SYM, "BinaryOperator.__post_init__"),
             (SYM, "SymbolicExpression.__post_init__"), (SYM, "SymbolicExpression._update_children_")]
ASSUMPTIONS = [
    "RWXNode (display graph node) behaves like a record with a `parent` field (its rustworkx bookkeeping is not part of the "
    "evaluation tree)",
    "the partially built tree is well formed: a binary selector's operands have it as parent; the local shape (the stack top "
    "and up to 4 ancestors) is enumerated exhaustively, deeper chains are not explored (shape-bounded)",
]
TRUSTED = ["RWXNode abstraction"]
BOUNDED_ONLY_CLAUSES = ["ancestor chains longer than 4 are not explored by the surgery obligations",
                        "selection at evaluation time (ExceptIf/Alternative/Next._evaluate__, update_conclusion) and instance construction "
                        "from the triggering binding: bounded reference RDR interpreter driver only"]

KINDS = ["descriptor", "ExceptIf-left", "ExceptIf-right", "Alternative-left", "Alternative-right", "Next-left", "Next-right"]


class Forest:
    """A partially built tree: nodes with evaluation operands; ancestors of the stack top generated on demand."""

    def __init__(self, vm, max_up=4):
        self.vm, self.max_up = vm, max_up
        self.nodes = []
        self.shape = []
        NodeCls = vm.loader.cls("krrood.entity_query_language.rxnode", "RWXNode")

        def mk_rwx(it, a, k):
            o = it.alloc(NodeCls, {"parent_field": None, "data": k.get("data"), "weight": "", "name": a[1] if len(a) > 1 else k.get("name")}, tag="rwx")
            return o
        vm.spec.stubs["RWXNode.__call__"] = mk_rwx
        vm.spec.attr_hooks[("RWXNode", "parent")] = lambda it, o: o.fields["parent_field"]
        vm.spec.stubs["RWXNode.parent@setter"] = lambda it, a, k: a[0].fields.__setitem__("parent_field", a[1])
        vm.spec.attr_hooks[("RWXNode", "root")] = lambda it, o: self._root(o)
        vm.spec.attr_hooks[("SymbolicExpression", "_name_")] = lambda it, o: "node"
        vm.spec.attr_hooks[("SymbolicExpression", "_plot_color_")] = lambda it, o: None
        from pyvc.repo import ClassInfo as _CI
        vm.spec.stubs["IDGenerator.__call__"] = lambda it, a, k: INLINE if isinstance(a[0], _CI) else 1000 + len(it.heap)
        self.NodeCls = NodeCls

    def _root(self, rwx):
        while rwx.fields["parent_field"] is not None:
            rwx = rwx.fields["parent_field"]
        return rwx

    def node(self, cls_name, tag, **fields):
        vm = self.vm
        o = vm.alloc(vm.loader.cls(SYM if cls_name not in ("ExceptIf", "Alternative", "Next") else CS, cls_name),
                     {"_id_": 100 + len(self.nodes), "_conclusion_": PySet(), "_eval_parent_": None, "_is_false_": False, **fields}, tag=tag)
        o.fields["_node_"] = vm.alloc(self.NodeCls, {"parent_field": None, "data": o, "weight": ""}, tag=f"rwx-{tag}")
        self.nodes.append(o)
        return o

    def link(self, parent, child, slot):
        parent.fields[slot] = child
        child.fields["_node_"].fields["parent_field"] = parent.fields["_node_"]
        if slot in ("left", "right"):
            parent.fields.setdefault("_child_", None)

    def grow(self, bottom):
        """choose the ancestors of `bottom` nondeterministically (well-formed chain ending in the query descriptor)."""
        ctx = self.vm.ctx
        cur = bottom
        for depth in range(self.max_up):
            k = ctx.choice(len(KINDS), f"ancestor-{depth}")
            kind = KINDS[k]
            self.shape.append(kind)
            if kind == "descriptor":
                d = self.node("SetOf", "descriptor", selected_variables=PyList([]), _child_=None)
                self.link(d, cur, "_child_")
                return d
            cls_name, side = kind.split("-")
            p = self.node(cls_name, f"{kind}@{depth}", left=None, right=None, _child_=None, left_evaluated=False, right_evaluated=False)
            sib = self.node("SymbolicExpression", f"sibling@{depth}")
            self.link(p, cur, side)
            self.link(p, sib, "right" if side == "left" else "left")
            cur = p
        d = self.node("SetOf", "descriptor", selected_variables=PyList([]), _child_=None)
        self.link(d, cur, "_child_")
        return d

    def edges(self):
        out = []
        for n in self.vm.heap:
            if not isinstance(n, Obj) or not hasattr(n.cls, "name"):
                continue
            for slot in ("left", "right", "_child_"):
                v = n.fields.get(slot)
                if isinstance(v, Obj) and "_node_" in v.fields and (slot != "_child_" or n.cls.name in ("SetOf", "Entity")):
                    out.append((n, slot, v))
        return out


def climbed(cur, for_refinement):
    """the node the new selector takes as its left operand, per the RDR reading of the property"""
    if for_refinement:
        return cur

    def parent_of(n):
        p = n.fields["_node_"].fields["parent_field"]
        return p.fields["data"] if p is not None else None
    while True:
        p = parent_of(cur)
        if p is None:
            return cur
        nm = p.cls.name
        if nm in ("Alternative", "Next"):
            cur = p
        elif nm == "ExceptIf" and p.fields.get("left") is cur:
            cur = p
        else:
            return cur


def surgery_harness(op):
    def run(vm):
        ctx = vm.ctx
        forest = Forest(vm)
        cur = forest.node("SymbolicExpression", "stack-top")
        top = forest.grow(cur)
        ctx.inputs["shape"] = list(forest.shape)
        stack = PyList([cur])
        vm.loader.cls(SYM, "SymbolicExpression").class_attr_vals["_symbolic_expression_stack_"] = stack
        vm.loader.cls(SYM, "SymbolicExpression").class_attr_vals["_id_expression_map_"] = make_dict([])
        before = forest.edges()
        cond = forest.node("SymbolicExpression", "new-condition")
        target = climbed(cur, op == "refinement")
        slot_before = next(((p, s) for p, s, v in before if v is target), None)
        fn = vm.module_global(RULE, op)
        r = vm.call(fn, [cond], {})
        ctx.cover("returned")
        shape = "/".join(forest.shape)
        prefix = f"rule.{op}"
        want_cls = {"refinement": "ExceptIf", "alternative": "Alternative", "next_rule": "Next"}[op]
        # (iii) the returned node is the new branch
        ctx.check(f"{prefix}::returns-the-new-branch", z3.BoolVal(r is cond), detail=shape)
        # (ii) the new selector sits in the evaluation position of the (top of the) current rule
        new_root = None
        if slot_before is not None:
            new_root = slot_before[0].fields.get(slot_before[1])
        ok2 = (isinstance(new_root, Obj) and new_root.cls.name == want_cls and new_root.fields.get("left") is target and new_root.fields.get("right") is cond)
        ctx.check(f"{prefix}::new-selector-takes-the-evaluation-position-of-the-current-rule", z3.BoolVal(bool(ok2)),
                  detail=f"shape (stack top upwards) {shape}: slot {slot_before[1] if slot_before else None} of {slot_before[0] if slot_before else None} now holds {new_root!r} (left={new_root.fields.get('left') if isinstance(new_root, Obj) else None})")
        # (i) nothing is lost
        lost = []
        for p, s, v in before:
            now = p.fields.get(s)
            if now is v:
                continue
            if isinstance(now, Obj) and now.fields.get("left") is v and now.cls.name == want_cls and v is target:
                continue
            lost.append((p, s, v, now))
        ctx.check(f"{prefix}::no-written-branch-is-dropped-from-the-evaluation-tree", z3.BoolVal(not lost), detail=f"shape {shape}: {lost}")
        # display parents agree with the evaluation tree for the touched nodes
        if ok2:
            okp = (new_root.fields["_node_"].fields["parent_field"] is slot_before[0].fields["_node_"]
                   and target.fields["_node_"].fields["parent_field"] is new_root.fields["_node_"]
                   and cond.fields["_node_"].fields["parent_field"] is new_root.fields["_node_"])
            ctx.check(f"{prefix}::parent-pointers-follow-the-evaluation-tree", z3.BoolVal(okp), detail=shape)
    return Harness(f"surgery-{op}", run, spec=Spec(), covers=["returned"], max_paths=60000)


def h_enter_exit():
    """with-blocks: __enter__ pushes the node (the cached conditions root for the query itself), __exit__ pops it."""
    def run(vm):
        ctx = vm.ctx
        forest = Forest(vm)
        SE = vm.loader.cls(SYM, "SymbolicExpression")
        stack = PyList([])
        SE.class_attr_vals["_symbolic_expression_stack_"] = stack
        root = forest.node("An", "query")
        desc = forest.node("SetOf", "descriptor", selected_variables=PyList([]), _child_=None)
        cond = forest.node("SymbolicExpression", "conditions")
        forest.link(root, desc, "_child_")
        branch = forest.node("SymbolicExpression", "some-branch")
        sel = forest.node("ExceptIf", "selector", left=cond, right=branch, _child_=None)
        forest.link(desc, sel, "_child_")
        forest.link(sel, cond, "left")
        forest.link(sel, branch, "right")
        for n in (root, desc):
            n.fields["_conditions_root_"] = cond
        vm.call_method(root, "__enter__")
        ok1 = stack.items == [cond]
        vm.call_method(branch, "__enter__")
        ok2 = stack.items == [cond, branch]
        vm.call_method(branch, "__exit__", None, None, None)
        vm.call_method(root, "__exit__", None, None, None)
        ctx.check("SymbolicExpression.__enter__/__exit__::stack-discipline", z3.BoolVal(ok1 and ok2 and stack.items == []), detail=repr(stack.items))
        ctx.check("SymbolicExpression._current_parent_::is-the-stack-top", z3.BoolVal(vm.call(vm._getattr(SE, "_current_parent_"), [], {}) is None))
    return Harness("enter-exit", run, spec=Spec())


def h_canary():
    def run(vm):
        forest = Forest(vm, max_up=1)
        cur = forest.node("SymbolicExpression", "stack-top")
        forest.grow(cur)
        vm.loader.cls(SYM, "SymbolicExpression").class_attr_vals["_symbolic_expression_stack_"] = PyList([cur])
        vm.loader.cls(SYM, "SymbolicExpression").class_attr_vals["_id_expression_map_"] = make_dict([])
        cond = forest.node("SymbolicExpression", "new-condition")
        r = vm.call(vm.module_global(RULE, "refinement"), [cond], {})
        # deliberately false: claims refinement returns the old node
        vm.ctx.check("CANARY", z3.BoolVal(r is cur))
    return Harness("canary", run, expect_fail=True)


def harnesses():
    return [surgery_harness("refinement"), surgery_harness("alternative"), surgery_harness("next_rule"), h_enter_exit(), h_canary()]
