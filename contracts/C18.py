"""C18 — JSON serialisation round-trips polymorphic objects through real JSON text.

Round-trip lemma by structural induction over the value grammar
    v ::= None | bool | int | float | str | [v, ...] | SubclassJSONSerializer instance | instance of a registered type (uuid.UUID)
Base and step cases are generated from the real to_json / from_json bodies; the recursive calls on the elements of a
list go through the induction hypothesis (contract stubs J(v) / from_json(J(v)) == v); lists have ANY length
(mapped-comprehension rule of the engine).  Objects: the base to_json writes exactly module + "." + name of the exact
class, and from_json resolves exactly that class from the tag (string obligation: rsplit inverts the concatenation
because a class name contains no dot) and hands over to that class's _from_json / the deserialiser registered for it.
json.loads(json.dumps(j)) == j is an assumed contract (validated natively on a corpus by bounded/C18.py).
"""
from __future__ import annotations
import ast
import z3

from pyvc.framework import Harness
from pyvc.interp import Spec, PyRaise, INLINE, Frame
from pyvc.values import SInt, SBool, SStr, Opaque, Builtin, PyList, PyDict, Obj, SymStream, ModuleVal
from pyvc.ops import make_dict, zstr, dict_items, key_of, dict_get
from pyvc.repo import ClassInfo

PROPERTY = "C18"
JS = "krrood.adapters.json_serializer"
FUNCTIONS = [(JS, "to_json"), (JS, "from_json"), (JS, "SubclassJSONSerializer.to_json"), (JS, "SubclassJSONSerializer.from_json"),
             (JS, "serialize_uuid"), (JS, "deserialize_uuid"), ("krrood.utils", "get_full_class_name"),
             (JS, "JSONSerializableTypeRegistry.register"), (JS, "JSONSerializableTypeRegistry.get_serializer"),
             (JS, "JSONSerializableTypeRegistry.get_deserializer"), ("krrood.ormatic.utils", "create_engine")]
ASSUMPTIONS = [
    "json.loads(json.dumps(j)) == j with exact types for JSON values built from None/bool/int/non-NaN float/str/list/str-keyed dict",
    "uuid.UUID(str(u)) == u",
    "importlib.import_module(C.__module__) returns the module M with getattr(M, C.__name__) is C for module-level classes; a "
    "class __name__ contains no dot",
    "user subclasses call super().to_json() and satisfy _from_json(to_json(o)) == o (their own contract; checked at run time "
    "for the dataset's subclasses by bounded/C18.py)",
    "NaN is excluded (it is not equal to itself)",
]
TRUSTED = ["assumed contract of the json module, uuid.UUID, importlib (spot-validated natively)"]


def cls(vm, name):
    return vm.loader.cls(JS, name)


class AVal(Opaque):
    """An arbitrary value of the grammar (induction hypothesis applies to it)."""

    def __init__(self, name):
        super().__init__("val:" + name)
        self.name = name


class JVal(Opaque):
    """J(v): the JSON image of v (what to_json(v) returns), opaque."""

    def __init__(self, v):
        super().__init__("J:" + v.name)
        self.v = v


def install_ih(vm):
    """Induction hypothesis as contracts of the *recursive* calls (module-level to_json / from_json on strictly smaller values)."""
    def to_json_stub(it, a, k):
        if isinstance(a[0], AVal):
            return JVal(a[0])
        return INLINE

    def from_json_stub(it, a, k):
        if isinstance(a[0], JVal):
            return a[0].v
        return INLINE
    vm.spec.stubs[f"{JS}:to_json"] = to_json_stub
    vm.spec.stubs[f"{JS}:from_json"] = from_json_stub
    vm.spec.opaque_hooks["isinstance"] = lambda it, v, c: False


def h_leaves():
    def run(vm):
        ctx = vm.ctx
        install_ih(vm)
        tj, fj = vm.module_global(JS, "to_json"), vm.module_global(JS, "from_json")
        leaves = [None, True, False, SInt(ctx.fresh_int("i")), 1.5, float("inf"), SStr(ctx.fresh_str("s")), 0, ""]
        for v in leaves:
            j = vm.call(tj, [v], {})
            back = vm.call(fj, [j], {})      # loads(dumps(j)) == j (assumed) — so from_json sees j
            same = (back is v) or (type(back) is type(v) and not isinstance(v, (SInt, SStr)) and back == v)
            ctx.check("to_json/from_json::leaves-pass-through-unchanged-both-ways", z3.BoolVal((j is v or j == v) and same), detail=f"{v!r} -> {j!r} -> {back!r}")
    return Harness("leaves", run, spec=Spec())


def h_lists():
    def run(vm):
        ctx = vm.ctx
        install_ih(vm)
        tj, fj = vm.module_global(JS, "to_json"), vm.module_global(JS, "from_json")
        n = ctx.fresh_int("n", register=True)
        ctx.assume(n >= 0)
        vals = {}

        def elem(vm_, idx):
            key = str(z3.simplify(idx))
            if key not in vals:
                vals[key] = AVal(f"v[{key}]")
            return vals[key]
        lst = SymStream("value-list", elem, length=n, meta={"kind": "list"})
        j = vm.call(tj, [lst], {})
        ok_list = isinstance(j, SymStream) and j.meta.get("kind") == "list"
        ctx.check("to_json::a-list-maps-to-a-list", z3.BoolVal(ok_list), detail=repr(j))
        if not ok_list:
            return
        ctx.check("to_json::list-image-has-the-same-length", j.length == n)
        i = ctx.fresh_int("i", register=True)
        ctx.assume(z3.And(0 <= i, i < n))
        ji = j.elem(vm, i)
        ctx.check("to_json::list-image-is-element-wise-in-order", z3.BoolVal(isinstance(ji, JVal) and ji.v is elem(vm, i)), detail=repr(ji))
        back = vm.call(fj, [j], {})            # loads(dumps(j)) == j (assumed)
        ok_back = isinstance(back, SymStream) and back.meta.get("kind") == "list"
        ctx.check("from_json::a-list-maps-to-a-list", z3.BoolVal(ok_back), detail=repr(back))
        if ok_back:
            ctx.check("from_json::list-round-trip-has-the-same-length", back.length == n)
            bi = back.elem(vm, i)
            ctx.check("from_json::list-round-trip-is-element-wise-in-order", z3.BoolVal(bi is elem(vm, i)), detail=repr(bi))
    return Harness("lists", run, spec=Spec())


SYNTH = '''
from krrood.adapters.json_serializer import SubclassJSONSerializer


class Animal(SubclassJSONSerializer):
    pass


class Dog(Animal):
    pass


class Puppy(Dog):
    pass


class Route(Animal):
    """a serialisable object that happens to be iterable (and sized): still an object, not a list"""

    def __iter__(self):
        return iter([1, 2])

    def __len__(self):
        return 2


class Plain:
    pass
'''

SYNTH_B = '''
from krrood.adapters.json_serializer import SubclassJSONSerializer


class Animal(SubclassJSONSerializer):
    """same simple name as pyvc_synth_c18.Animal, another module"""


class Dog(Animal):
    pass
'''


def install_import(vm, synth_mod):
    """Assumed contract of importlib for module-level classes of a module named by a (symbolic-free) string."""
    def import_module(it, fr, a, k):
        name = a[0]
        if isinstance(name, SStr):
            raise AssertionError("module name should be concrete here")
        m = it.loader.module(name, must=False)
        if m is None:
            it.raise_("ModuleNotFoundError", name)
        return ModuleVal(name, m)
    vm.builtins = dict(vm.builtins)
    vm.builtins["importlib.import_module"] = Builtin("import_module", import_module)

    def getattr_sym(it, obj, name, *default):
        raise AssertionError("symbolic getattr")
    vm.spec.opaque_hooks["getattr_sym"] = getattr_sym


class Built(Opaque):
    """what a class's own _from_json (or a registered deserialiser) built: an arbitrary user object -- it may be falsy (an empty
    container-like object, a zero-like number); whoever asks for its truth value is recorded"""

    def __init__(self, of, touched):
        super().__init__("built-object")
        self.of, self.touched = of, touched

    def m_truth(self, vm):
        self.touched.append("truth")
        return False          # the adversarial case (an empty container-like object); no fork: every object would double the paths


def h_objects():
    def run(vm):
        ctx = vm.ctx
        install_ih(vm)
        vm.loader.add_module("pyvc_synth_c18", SYNTH)
        install_import(vm, "pyvc_synth_c18")
        tj, fj = vm.module_global(JS, "to_json"), vm.module_global(JS, "from_json")
        handed = []
        for cname in ("Animal", "Dog", "Puppy", "Route"):
            C = vm.loader.cls("pyvc_synth_c18", cname)
            # every class answers _from_json by recording which class it was called on
            touched = []
            vm.spec.stubs["SubclassJSONSerializer._from_json"] = lambda it, a, k: (handed.append((a[0], a[1])), Built(a[0], touched))[1]
            o = vm.alloc(C, {}, tag=f"a-{cname}")
            j = vm.call(tj, [o], {})
            tag = dict_get(j, "__json_type__") if isinstance(j, PyDict) else None
            ctx.check("SubclassJSONSerializer.to_json::writes-the-fully-qualified-name-of-the-exact-class",
                      z3.BoolVal(tag == f"pyvc_synth_c18.{cname}"), detail=f"{cname}: {j!r}")
            del handed[:]
            try:
                back = vm.call(fj, [j], {})
            except PyRaise as pr:
                back = ("raised", pr.exc.cls.name)
            ok = handed and handed[0][0] is C and handed[0][1] is j and isinstance(back, Built) and back.of is C
            ctx.check("from_json::hands-over-to-_from_json-of-exactly-the-tagged-class", z3.BoolVal(bool(ok)), detail=f"{cname}: {handed} -> {back!r}")
            ctx.check("from_json::what-the-class-built-is-returned-as-it-is-falsy-or-not", z3.BoolVal(isinstance(back, Built) and not touched),
                      detail=f"{cname}: returned {back!r}; asked of the built object: {touched}")
            # ... whatever else the payload contains: fields called "type" / "class" / "__class__" / "json_type" do not take part in the dispatch
            if isinstance(j, PyDict):
                from pyvc.ops import dict_set
                for extra_key, extra_val in (("type", "pyvc_synth_c18.Animal"), ("type", "camera"), ("class", "pyvc_synth_c18.Plain"), ("json_type", "x.Y"), ("__type__", "pyvc_synth_c18.Puppy")):
                    j2 = make_dict(dict_items(j) + [(extra_key, extra_val)])
                    del handed[:]
                    try:
                        back = vm.call(fj, [j2], {})
                        ok = handed and handed[0][0] is C and isinstance(back, Built) and back.of is C
                    except PyRaise as pr:
                        ok = False
                    ctx.check("from_json::only-the-tag-key-decides-the-class-whatever-other-fields-the-payload-has", z3.BoolVal(bool(ok)), detail=f"{cname} with {extra_key}={extra_val!r}: {handed}")
        # two serialisable classes with the SAME simple name in different modules are different classes: the module part of the tag counts
        vm.loader.add_module("pyvc_synth_c18b", SYNTH_B)
        for cname in ("Animal", "Dog"):
            for modname in ("pyvc_synth_c18b", "pyvc_synth_c18"):
                C = vm.loader.cls(modname, cname)
                # class creation runs __init_subclass__ of the base (the engine does not create classes: replay it here for every class)
                for hook_cls in C.mro(vm.loader)[1:]:
                    if hasattr(hook_cls, "methods") and "__init_subclass__" in hook_cls.methods:
                        vm.call_func(hook_cls.methods["__init_subclass__"], [C], {})
                        break
        for modname in ("pyvc_synth_c18", "pyvc_synth_c18b", "pyvc_synth_c18"):
            C = vm.loader.cls(modname, "Dog")
            o = vm.alloc(C, {}, tag=f"a-{modname}.Dog")
            j = vm.call(tj, [o], {})
            del handed[:]
            back = vm.call(fj, [j], {})
            ctx.check("from_json::classes-with-the-same-simple-name-in-different-modules-are-kept-apart",
                      z3.BoolVal(bool(handed) and handed[0][0] is C and dict_get(j, "__json_type__") == f"{modname}.Dog"), detail=f"{modname}.Dog: {handed}")
        # an object that is neither a serializer subclass nor registered cannot be serialised silently
        P = vm.loader.cls("pyvc_synth_c18", "Plain")
        try:
            r = vm.call(tj, [vm.alloc(P, {}, tag="plain")], {})
            ctx.fail("to_json::unregistered-type-is-rejected", detail=repr(r))
        except PyRaise as pr:
            ctx.check("to_json::unregistered-type-is-rejected", z3.BoolVal(getattr(pr.exc.cls, "name", "") == "ClassNotSerializableError"),
                      detail=f"{pr.exc!r} {pr.exc.fields.get('args')}")
    return Harness("objects", run, spec=Spec())


def h_tag_string_lemma():
    """rsplit('.', 1) inverts module + '.' + name for every module string and every dot-free class name."""
    def run(vm):
        ctx = vm.ctx
        m = ctx.fresh_str("module", register=True)
        nme = ctx.fresh_str("name", register=True)
        ctx.assume(z3.Not(z3.Contains(nme, z3.StringVal("."))))
        gfn = vm.module_global("krrood.utils", "get_full_class_name")
        C = vm.alloc(vm.ext("type"), {"__module__": SStr(m), "__name__": SStr(nme)}, tag="class")
        tag = vm.call(gfn, [C], {})
        ctx.check("get_full_class_name::is-module-dot-name", zstr(tag) == z3.Concat(m, z3.StringVal("."), nme))
        # the statement from_json executes on the tag
        # the statement from_json executes on the tag - taken from the REAL ast of from_json (the first assignment that splits a
        # string), not from a copy: the tag variable and the two targets are whatever the repository calls them
        fj = vm.loader.cls(JS, "SubclassJSONSerializer").methods["from_json"]
        # ... in from_json itself or in a helper of the module it calls (by name, transitively): where the statement lives is not
        # part of the property
        mod = vm.loader.module(JS)
        by_name = dict(mod.functions)
        for c_ in mod.classes.values():
            for n_, f_ in c_.methods.items():
                by_name.setdefault(n_, f_)
        stmt, todo, seen = None, [fj], set()
        while todo and stmt is None:
            f_ = todo.pop(0)
            if id(f_) in seen:
                continue
            seen.add(id(f_))
            for node in ast.walk(f_.node):
                if isinstance(node, ast.Assign) and isinstance(node.value, ast.Call) and isinstance(node.value.func, ast.Attribute) \
                        and "split" in node.value.func.attr and isinstance(node.value.func.value, ast.Name):
                    stmt = node
                    break
                if isinstance(node, ast.Call):
                    callee = node.func.id if isinstance(node.func, ast.Name) else (node.func.attr if isinstance(node.func, ast.Attribute) else None)
                    if callee in by_name:
                        todo.append(by_name[callee])
        if stmt is None:
            ctx.fail("from_json::tag-splits-back-into-module-and-class-name", detail="no string-splitting assignment found in from_json")
            return
        source_name = stmt.value.func.value.id
        targets = [x.id for x in ast.walk(stmt.targets[0]) if isinstance(x, ast.Name)]
        fr = Frame(vm, vm.loader.module(JS))
        fr.locals[source_name] = tag
        gen = vm.exec_block([stmt], fr)
        try:
            while True:
                next(gen)
        except StopIteration:
            pass
        ctx.cover("split")
        ok_shape = len(targets) == 2
        ctx.check("from_json::tag-splits-back-into-module-and-class-name",
                  z3.And(zstr(fr.locals[targets[0]]) == m, zstr(fr.locals[targets[1]]) == nme) if ok_shape else z3.BoolVal(False),
                  detail=ast.unparse(stmt))
    return Harness("tag-string-lemma", run, spec=Spec(), covers=["split"], timeout_ms=30000)


def h_uuid_and_registry():
    def run(vm):
        ctx = vm.ctx
        install_ih(vm)
        mod = vm.loader.module(JS)
        UUIDc = vm.ext("uuid.UUID")
        vm.loader.externals[("uuid", "UUID")] = UUIDc
        # uuid module attribute access: uuid.UUID
        vm.builtins = dict(vm.builtins)
        made = []

        def uuid_ctor(it, c, a, k):
            made.append(a[0])
            return ("UUID-of", a[0])
        vm.builtins["uuid.UUID"] = UUIDc
        vm.spec.opaque_hooks["ext_new"] = uuid_ctor
        u = Opaque("a-uuid")
        u.cls_name = "uuid.UUID"
        vm.spec.opaque_hooks["str"] = lambda it, v: ("str-of", v)
        vm.spec.opaque_hooks["type"] = lambda it, v: UUIDc

        def ext_getattr(it, v, name):
            raise AssertionError(name)
        UUIDc.py = None
        orig_getattr = vm._getattr

        ser, de = vm.module_global(JS, "serialize_uuid"), vm.module_global(JS, "deserialize_uuid")
        # get_full_class_name(type(obj)) needs __module__/__name__ of uuid.UUID
        vm.spec.stubs["krrood.utils:get_full_class_name"] = lambda it, a, k: "uuid.UUID" if a[0] is UUIDc else INLINE
        j = vm.call(ser, [u], {})
        ok = isinstance(j, PyDict) and dict_get(j, "__json_type__") == "uuid.UUID" and dict_get(j, "value") == ("str-of", u) and len(j.keys) == 2
        ctx.check("serialize_uuid::tag-and-string-value", z3.BoolVal(ok), detail=repr(j))
        back = vm.call(de, [j], {})
        ctx.check("deserialize_uuid::is-UUID-of-the-string-value", z3.BoolVal(back == ("UUID-of", ("str-of", u))), detail=repr(back))
        # the module registers the pair for uuid.UUID at import time (the last top-level statement)
        reg = vm.alloc(cls(vm, "JSONSerializableTypeRegistry"), {"_serializers": make_dict([]), "_deserializers": make_dict([])}, tag="registry")
        vm.spec.stubs["JSONSerializableTypeRegistry.__call__"] = lambda it, a, k: reg
        stmts = [st for st in mod.tree.body if isinstance(st, ast.Expr) and isinstance(st.value, ast.Call) and "register" in ast.unparse(st.value.func)]
        ctx.check("json_serializer::module-registers-uuid", z3.BoolVal(len(stmts) == 1))
        fr = Frame(vm, mod)
        fr.locals["uuid"] = ModuleVal("uuid", None)
        for st in stmts:
            vm.ev(st.value, fr)
        ok = dict_get(reg.fields["_serializers"], UUIDc) is ser and dict_get(reg.fields["_deserializers"], UUIDc) is de
        ctx.check("json_serializer::uuid-registered-with-its-own-pair", z3.BoolVal(ok), detail=repr(reg.fields))
        # the registry answers for EXACTLY the registered type (a subclass registered with its own pair keeps it, whatever the
        # order of registration; an unregistered subclass has none)
        from pyvc.values import ExtClass
        Base = ExtClass("demo.Base")
        Sub = ExtClass("demo.Sub", bases=(Base,))
        Other = ExtClass("demo.Other", bases=(Base,))
        pairs = {}
        for c_ in (Base, Sub):
            pairs[c_] = (Builtin(f"ser-{c_.name}", lambda it, fr, a, k: None), Builtin(f"de-{c_.name}", lambda it, fr, a, k: None))
            vm.call_method(reg, "register", c_, pairs[c_][0], pairs[c_][1])
        got = [(vm.call_method(reg, "get_serializer", c_), vm.call_method(reg, "get_deserializer", c_)) for c_ in (Base, Sub, Other)]
        ctx.check("JSONSerializableTypeRegistry::lookup-is-by-the-exact-type",
                  z3.BoolVal(got[0][0] is pairs[Base][0] and got[0][1] is pairs[Base][1] and got[1][0] is pairs[Sub][0] and got[1][1] is pairs[Sub][1]
                             and got[2] == (None, None)), detail=repr(got))
        # dispatch through the registry by exact type, both ways
        tj, fj = vm.module_global(JS, "to_json"), vm.module_global(JS, "from_json")
        j2 = vm.call(tj, [u], {})
        ctx.check("to_json::registered-type-uses-its-serializer", z3.BoolVal(isinstance(j2, PyDict) and dict_get(j2, "value") == ("str-of", u)))
    return Harness("uuid-and-registry", run, spec=Spec())


def h_engine_lambdas():
    """create_engine installs x -> json.dumps(to_json(x)) and x -> from_json(json.loads(x))."""
    def run(vm):
        ctx = vm.ctx
        UT = "krrood.ormatic.utils"
        captured = {}
        vm.loader.externals[("sqlalchemy", "create_engine")] = Builtin("create_sqlalchemy_engine", lambda it, fr, a, k: captured.update(k) or "ENGINE")
        vm.builtins = dict(vm.builtins)
        vm.builtins["json.dumps"] = Builtin("json.dumps", lambda it, fr, a, k: ("dumps", a[0]))
        vm.builtins["json.loads"] = Builtin("json.loads", lambda it, fr, a, k: ("loads", a[0]))
        vm.spec.stubs[f"{JS}:to_json"] = lambda it, a, k: ("to_json", a[0])
        vm.spec.stubs[f"{JS}:from_json"] = lambda it, a, k: ("from_json", a[0])
        try:
            r = vm.call(vm.module_global(UT, "create_engine"), ["sqlite://"], {})
        except Exception as e:   # the external may be imported under another name
            ctx.fail("create_engine::installs-krrood-json-functions", detail=repr(e))
            return
        x = Opaque("x")
        ok = (r == "ENGINE" and "json_serializer" in captured and "json_deserializer" in captured
              and vm.call(captured["json_serializer"], [x], {}) == ("dumps", ("to_json", x))
              and vm.call(captured["json_deserializer"], [x], {}) == ("from_json", ("loads", x)))
        ctx.check("create_engine::installs-krrood-json-functions", z3.BoolVal(ok), detail=repr(captured))
    return Harness("engine-lambdas", run, spec=Spec())


def h_canary():
    def run(vm):
        install_ih(vm)
        tj = vm.module_global(JS, "to_json")
        j = vm.call(tj, [(1, 2)], {})
        # deliberately false: claims a tuple stays a tuple
        vm.ctx.check("CANARY", z3.BoolVal(isinstance(j, tuple)))
    return Harness("canary", run, expect_fail=True)


def harnesses():
    return [h_leaves(), h_lists(), h_objects(), h_tag_string_lemma(), h_uuid_and_registry(), h_engine_lambdas(), h_canary()]
