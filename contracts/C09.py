"""C09 — result quantifiers enforce exactly the stated solution count.

Sidecar contracts (nothing in /repo is annotated).  Spec (from the property text):
    Exactly(v): lower=v upper=v      AtLeast(v): lower=v, no upper
    AtMost(v):  lower=0 upper=v      Range(AtLeast(lo), AtMost(hi)): lower=lo upper=hi
"""
from __future__ import annotations
import z3

from pyvc.framework import Harness
from pyvc.interp import Spec, LoopSpec, PyRaise
from pyvc.values import SInt, SBool, SymStream, Obj, GenObj, PyList, Opaque
from pyvc.ops import zint, zbool, make_dict

PROPERTY = "C09"
RQC = "krrood.entity_query_language.result_quantification_constraint"
SYM = "krrood.entity_query_language.symbolic"
FAIL = "krrood.entity_query_language.failures"

FUNCTIONS = [
    (RQC, "SingleValueQuantificationConstraint.__post_init__"),
    (RQC, "Range.__post_init__"),
    (RQC, "Exactly.assert_satisfaction"),
    (RQC, "AtLeast.assert_satisfaction"),
    (RQC, "AtMost.assert_satisfaction"),
    (RQC, "Range.assert_satisfaction"),
    (SYM, "ResultQuantifier._evaluate__"),
    (SYM, "ResultQuantifier._assert_satisfaction_of_quantification_constraints_"),
    (SYM, "The._evaluate__"),
    (SYM, "The.evaluate"),
    ("krrood.entity_query_language.quantify_entity", "an"),
    ("krrood.entity_query_language.quantify_entity", "the"),
    ("krrood.entity_query_language.quantify_entity", "_quantify_entity"),
]

SINGLE = {"Exactly": ("v", "v"), "AtLeast": ("v", None), "AtMost": (0, "v")}


def cls(vm, mod, name):
    return vm.loader.cls(mod, name)


def exc_is(vm, pr, name, mod=FAIL):
    return vm.is_subclass(pr.exc.cls, cls(vm, mod, name))


def exc_exact(vm, pr, name, mod=FAIL):
    return pr.exc.cls is cls(vm, mod, name)


# ---------------------------------------------------------------- constructors
def h_ctor_single(cname):
    def run(vm):
        ctx = vm.ctx
        v = ctx.fresh_int("value", register=True)
        ctx.inputs["class"] = cname
        try:
            o = vm.call(cls(vm, RQC, cname), [SInt(v)], {})
        except PyRaise as pr:
            ctx.cover("raised")
            ctx.check(f"{cname}.__init__::rejects-only-negative", z3.And(v < 0, z3.BoolVal(exc_exact(vm, pr, "NegativeQuantificationError"))),
                      detail=repr(pr.exc))
            return
        ctx.cover("constructed")
        ctx.check(f"{cname}.__init__::accepts-only-nonnegative", v >= 0)
        ctx.check(f"{cname}.__init__::stores-value", zint(o.fields["value"]) == v)
        ctx.check(f"{cname}::truthy", z3.BoolVal(vm.truth(o)))
    return Harness(f"ctor-{cname}", run, covers=["raised", "constructed"])


def h_ctor_range():
    def run(vm):
        ctx = vm.ctx
        lo = ctx.fresh_int("lo", register=True)
        hi = ctx.fresh_int("hi", register=True)
        ctx.assume(lo >= 0)
        ctx.assume(hi >= 0)
        al = vm.call(cls(vm, RQC, "AtLeast"), [SInt(lo)], {})
        am = vm.call(cls(vm, RQC, "AtMost"), [SInt(hi)], {})
        try:
            r = vm.call(cls(vm, RQC, "Range"), [al, am], {})
        except PyRaise as pr:
            ctx.cover("raised")
            ctx.check("Range.__init__::rejects-only-inconsistent",
                      z3.And(hi < lo, z3.BoolVal(exc_exact(vm, pr, "QuantificationConsistencyError"))), detail=repr(pr.exc))
            return
        ctx.cover("constructed")
        ctx.check("Range.__init__::accepts-only-consistent", hi >= lo)
        ctx.check("Range.__init__::keeps-bounds", z3.And(zint(r.fields["at_least"].fields["value"]) == lo,
                                                       zint(r.fields["at_most"].fields["value"]) == hi))
        ctx.check("Range::truthy", z3.BoolVal(vm.truth(r)))
    return Harness("ctor-Range", run, covers=["raised", "constructed"])


# ---------------------------------------------------------------- assert_satisfaction
def check_assert_satisfaction(vm, name, obj, lower, upper):
    """Run the real assert_satisfaction(k, q, done) and compare with the spec outcome."""
    ctx = vm.ctx
    k = ctx.fresh_int("count", register=True)
    done = ctx.fresh_bool("done", register=True)
    ctx.assume(k >= 0)
    q = vm.alloc(cls(vm, SYM, "ResultQuantifier"), tag="quantifier")
    gt = z3.BoolVal(False) if upper is None else k > upper
    lt = z3.And(done, k < lower, z3.Not(gt))
    try:
        vm.call_method(obj, "assert_satisfaction", SInt(k), q, SBool(done))
    except PyRaise as pr:
        if exc_is(vm, pr, "GreaterThanExpectedNumberOfSolutions"):
            ctx.cover("greater")
            ctx.check(f"{name}.assert_satisfaction::greater-only-above-upper", gt)
            ctx.check(f"{name}.assert_satisfaction::greater-exact-class", z3.BoolVal(exc_exact(vm, pr, "GreaterThanExpectedNumberOfSolutions")))
        elif exc_is(vm, pr, "LessThanExpectedNumberOfSolutions"):
            ctx.cover("less")
            ctx.check(f"{name}.assert_satisfaction::less-only-when-done-below-lower", lt)
            ctx.check(f"{name}.assert_satisfaction::less-exact-class", z3.BoolVal(exc_exact(vm, pr, "LessThanExpectedNumberOfSolutions")))
        else:
            ctx.fail(f"{name}.assert_satisfaction::only-quantification-errors", detail=repr(pr.exc))
        return
    ctx.cover("returned")
    ctx.check(f"{name}.assert_satisfaction::returns-only-when-satisfied", z3.Not(z3.Or(gt, lt)))


def h_assert_single(cname):
    lo_s, hi_s = SINGLE[cname]

    def run(vm):
        ctx = vm.ctx
        v = ctx.fresh_int("value", register=True)
        ctx.inputs["class"] = cname
        ctx.assume(v >= 0)      # class invariant, established by the constructor obligations above
        o = vm.call(cls(vm, RQC, cname), [SInt(v)], {})
        lower = v if lo_s == "v" else z3.IntVal(0)
        upper = v if hi_s == "v" else None
        check_assert_satisfaction(vm, cname, o, lower, upper)
    covers = ["returned"] + (["greater"] if hi_s else []) + (["less"] if lo_s == "v" else [])
    return Harness(f"assert-{cname}", run, covers=covers)


def h_assert_range():
    def run(vm):
        ctx = vm.ctx
        lo = ctx.fresh_int("lo", register=True)
        hi = ctx.fresh_int("hi", register=True)
        ctx.inputs["class"] = "Range"
        ctx.assume(z3.And(lo >= 0, hi >= lo))
        al = vm.call(cls(vm, RQC, "AtLeast"), [SInt(lo)], {})
        am = vm.call(cls(vm, RQC, "AtMost"), [SInt(hi)], {})
        r = vm.call(cls(vm, RQC, "Range"), [al, am], {})
        check_assert_satisfaction(vm, "Range", r, lo, hi)
    return Harness("assert-Range", run, covers=["returned", "greater", "less"])


# ---------------------------------------------------------------- abstract constraint (the contract proved above)
def abstract_constraint(vm, has_upper):
    ctx = vm.ctx
    lower = ctx.fresh_int("lower", register=True)
    ctx.assume(lower >= 0)
    o = vm.alloc(cls(vm, RQC, "ResultQuantificationConstraint"), tag="constraint")
    o.fields["ghost_lower"] = lower
    if has_upper:
        upper = ctx.fresh_int("upper", register=True)
        ctx.assume(upper >= lower)
        o.fields["ghost_upper"] = upper
    else:
        o.fields["ghost_upper"] = None
    ctx.inputs["has_upper"] = has_upper
    return o


def stub_assert_satisfaction(vm, args, kwargs):
    """Contract of ResultQuantificationConstraint.assert_satisfaction (each subclass is proved against it)."""
    ctx = vm.ctx
    selfo, k, q, done = args[0], args[1], args[2], args[3]
    if "ghost_lower" not in selfo.fields:
        from pyvc.interp import INLINE
        return INLINE
    lower, upper = selfo.fields["ghost_lower"], selfo.fields["ghost_upper"]
    k = zint(k)
    done = zbool(done)
    if upper is not None and ctx.branch(k > upper):
        raise PyRaise(vm.make_exc(cls(vm, FAIL, "GreaterThanExpectedNumberOfSolutions")))
    if ctx.branch(z3.And(done, k < lower)):
        raise PyRaise(vm.make_exc(cls(vm, FAIL, "LessThanExpectedNumberOfSolutions")))
    return None


def child_stream(vm, var_id):
    """Abstract child QueryObjectDescriptor: a stream of n OperationResults (n unconstrained >= 0)."""
    ctx = vm.ctx
    n = ctx.fresh_int("n", register=True)
    ctx.assume(n >= 0)
    OR = cls(vm, SYM, "OperationResult")
    HV = cls(vm, "krrood.entity_query_language.hashed_data", "HashedValue")

    def elem(vm_, idx):
        b = make_dict([])
        from pyvc.ops import dict_set
        if var_id is not None:
            dict_set(b, var_id, vm_.alloc(HV, {"value": SInt(vm_.ctx.fresh_int("sol")), "id_": 0}))
        # a variable that is NOT selected but was bound while the description was evaluated (e.g. a variable of an enclosing
        # query that occurs in the conditions of this sub-query): its binding belongs to the solution
        dict_set(b, 8, vm_.alloc(HV, {"value": SInt(vm_.ctx.fresh_int("other")), "id_": 1}, tag="binding-of-an-unselected-variable"))
        r = vm_.alloc(OR, {"bindings": b, "is_false": False, "operand": None})
        vm_.ctx.last_child_result = r
        return r
    return SymStream("child", elem, length=n, meta={"kind": "generator"}), n


def quantifier_obj(vm, qcls, constraint, with_var):
    var = None
    var_id = None
    if with_var:
        var_id = 7
        var = vm.alloc(cls(vm, SYM, "Variable"), {"_id_": var_id}, tag="var")
        HV_ = cls(vm, "krrood.entity_query_language.hashed_data", "HashedValue")
        var.fields["_unique_variables_"] = PyList([vm.alloc(HV_, {"value": var, "id_": var_id})])     # the variables the node ranges over: itself
    stream, n = child_stream(vm, var_id)
    child = vm.alloc(cls(vm, SYM, "QueryObjectDescriptor"), {"_var_": var, "selected_variables": PyList([var] if var is not None else [])}, tag="child")
    child.fields["ghost_stream"] = stream
    q = vm.alloc(cls(vm, SYM, qcls), {"_child_": child, "_quantification_constraint_": constraint, "_var_": var,
                                      "_id_": 3, "_eval_parent_": None}, tag="quantifier")
    return q, n


def stub_child_evaluate(vm, args, kwargs):
    selfo = args[0]
    if "ghost_stream" in selfo.fields:
        return selfo.fields["ghost_stream"]
    from pyvc.interp import INLINE
    return INLINE


def loop_inv(vm, fr):
    ctx = vm.ctx
    # the counter is "the int-valued local of the frame" (robust against renaming)
    ints = [v for k, v in fr.locals.items() if isinstance(v, (int, SInt)) and not isinstance(v, bool)]
    if not ints:
        # ... or an integer the quantifier keeps on itself (then other evaluations of the same node can reach it: C03)
        ints = [v for k, v in fr.locals["self"].fields.items() if isinstance(v, (int, SInt)) and not isinstance(v, bool) and k != "_id_"]
    if len(ints) != 1:
        from pyvc.ctx import Unsupported
        raise Unsupported(f"loop invariant: expected one integer local (the solution counter), found {len(ints)}")
    rc = zint(ints[0])
    consumed = ctx.ghost.get(("consumed", "child"), 0)
    consumed = z3.IntVal(consumed) if isinstance(consumed, int) else consumed
    y = ctx.ghost.get("yielded", 0)
    y = z3.IntVal(y) if isinstance(y, int) else y
    f = [rc == consumed, rc == y]
    c = fr.locals["self"].fields["_quantification_constraint_"]
    if c is not None and c.fields.get("ghost_upper") is not None:
        f.append(rc <= c.fields["ghost_upper"])
    return z3.And(f)


def make_spec():
    s = Spec()
    s.stubs["ResultQuantificationConstraint.assert_satisfaction"] = stub_assert_satisfaction
    s.stubs["QueryObjectDescriptor._evaluate__"] = stub_child_evaluate
    s.loops[("ResultQuantifier._evaluate__", 0)] = LoopSpec(inv=loop_inv, name="count = consumed = yielded <= upper")
    s.stream_loops["child"] = s.loops[("ResultQuantifier._evaluate__", 0)]      # wherever the loop over the child's results lives
    # a container the loop keeps (e.g. a memory of results already reported) has unknown content at an arbitrary iteration:
    # membership tests may go either way
    from .lib import AnySeq
    s.opaque_hooks["havoc_container"] = lambda it, old, what: AnySeq(what, lambda it2: Opaque("remembered"))
    return s


def consume_and_check(vm, q, n, lower, upper, prefix, the=False):
    """Drive q._evaluate__() counting yields (ghost) and compare the outcome with the spec."""
    ctx = vm.ctx
    ctx.ghost["yielded"] = 0
    # the contract holds wherever the quantifier sits: evaluated by the user (no parent) or as an operand of an enclosing query
    parent = None if ctx.choice(2, "evaluated-by") == 0 else vm.alloc(cls(vm, SYM, "SymbolicExpression"), {"_id_": 99, "_is_false_": False}, tag="enclosing-query")
    ctx.inputs["nested"] = parent is not None
    gen = vm.call(vm._getattr(q, "_evaluate__"), [], {"parent": parent})

    def y():
        v = ctx.ghost["yielded"]
        return z3.IntVal(v) if isinstance(v, int) else v
    above = z3.BoolVal(False) if upper is None else n > upper
    below = z3.And(n < lower, z3.Not(above))
    GT = "MultipleSolutionFound" if the else "GreaterThanExpectedNumberOfSolutions"
    LT = "NoSolutionFound" if the else "LessThanExpectedNumberOfSolutions"
    try:
        for res in vm.iterate(gen):
            ctx.ghost_add("yielded")
            if upper is not None:
                ctx.check(f"{prefix}::never-yields-beyond-upper", y() <= upper)
            ctx.check(f"{prefix}::yield-is-true-result", z3.BoolVal(res.fields["is_false"] is False))
            src = getattr(ctx, "last_child_result", None)
            if src is not None:
                from pyvc.ops import dict_get, dict_items
                kept = all(dict_get(res.fields["bindings"], k_) is v_ for k_, v_ in dict_items(src.fields["bindings"]))
                ctx.check(f"{prefix}::every-binding-of-the-child-result-is-passed-on", z3.BoolVal(kept),
                          detail=f"child result binds {[k_ for k_, _ in dict_items(src.fields['bindings'])]}, yielded result binds {[k_ for k_, _ in dict_items(res.fields['bindings'])]}")
    except PyRaise as pr:
        if exc_is(vm, pr, "GreaterThanExpectedNumberOfSolutions"):
            ctx.cover("greater")
            ctx.check(f"{prefix}::greater-iff-more-than-upper", above)
            if upper is not None:
                ctx.check(f"{prefix}::greater-after-exactly-upper-yields", y() == upper)
            ctx.check(f"{prefix}::greater-class", z3.BoolVal(exc_exact(vm, pr, GT)))
        elif exc_is(vm, pr, "LessThanExpectedNumberOfSolutions"):
            ctx.cover("less")
            ctx.check(f"{prefix}::less-iff-fewer-than-lower", below)
            ctx.check(f"{prefix}::less-after-all-yields", y() == n)
            ctx.check(f"{prefix}::less-class", z3.BoolVal(exc_exact(vm, pr, LT)))
        else:
            ctx.fail(f"{prefix}::only-quantification-errors", detail=repr(pr.exc))
        return
    ctx.cover("completed")
    ctx.check(f"{prefix}::completes-iff-count-satisfies", z3.Not(z3.Or(above, below)))
    ctx.check(f"{prefix}::yields-all-solutions", y() == n)


def h_evaluate(has_constraint, has_upper, with_var):
    nm = f"an-evaluate[{'c' if has_constraint else 'none'}{'+upper' if has_upper else ''}{'+var' if with_var else ''}]"

    def run(vm):
        ctx = vm.ctx
        c = abstract_constraint(vm, has_upper) if has_constraint else None
        q, n = quantifier_obj(vm, "An", c, with_var)
        lower = c.fields["ghost_lower"] if c is not None else z3.IntVal(0)
        upper = c.fields["ghost_upper"] if c is not None else None
        consume_and_check(vm, q, n, lower, upper, "ResultQuantifier._evaluate__")
    covers = ["completed"] + (["less"] if has_constraint else []) + (["greater"] if has_upper else [])
    return Harness(nm, run, spec=make_spec(), covers=covers)


def h_the_evaluate_stream(with_var):
    def run(vm):
        ctx = vm.ctx
        # The() builds its own constraint through the real default factory: Exactly(1)
        The = cls(vm, SYM, "The")
        fi = [f for f in The.dataclass_fields(vm.loader) if f.name == "_quantification_constraint_"][0]
        from pyvc.interp import Frame
        c = vm.call(vm.ev(fi.default_factory, Frame(vm, fi.owner.module)), [], {})
        ctx.check("The::constraint-is-exactly-one", z3.BoolVal(
            c.cls is cls(vm, RQC, "Exactly") and c.fields["value"] == 1 and fi.init is False))
        # abstract view of that object for the loop invariant (bounds proved for Exactly above)
        c.fields["ghost_lower"] = z3.IntVal(1)
        c.fields["ghost_upper"] = z3.IntVal(1)
        q, n = quantifier_obj(vm, "The", c, with_var)
        if ctx.choice(2, "asked-before-under-other-bindings") == 1:
            # the(...) inside an enclosing query is asked once per binding of that query: whatever it found for an EARLIER binding
            # (here: exactly one solution, consumed completely) says nothing about this one
            HV = cls(vm, "krrood.entity_query_language.hashed_data", "HashedValue")
            main_stream = q.fields["_child_"].fields["ghost_stream"]
            first_stream, n0 = child_stream(vm, 7 if with_var else None)
            ctx.assume(n0 == 1)
            q.fields["_child_"].fields["ghost_stream"] = first_stream
            ctx.ghost["yielded"] = 0
            earlier = make_dict([(9, vm.alloc(HV, {"value": SInt(ctx.fresh_int("outer")), "id_": 5}, tag="earlier-outer-binding"))])
            enclosing = vm.alloc(cls(vm, SYM, "SymbolicExpression"), {"_id_": 99, "_is_false_": False}, tag="enclosing-query")
            for _ in vm.iterate(vm.call(vm._getattr(q, "_evaluate__"), [earlier], {"parent": enclosing})):
                ctx.ghost_add("yielded")
            ctx.cover("asked-twice")
            q.fields["_child_"].fields["ghost_stream"] = main_stream
            for k in [k for k in ctx.ghost if k == "yielded" or (isinstance(k, tuple) and k[0] == "consumed")]:
                del ctx.ghost[k]
        consume_and_check(vm, q, n, z3.IntVal(1), z3.IntVal(1), "The._evaluate__", the=True)
    s = make_spec()
    # the real Exactly.assert_satisfaction body runs here (fields ghost_* are only read by the invariant)
    del s.stubs["ResultQuantificationConstraint.assert_satisfaction"]
    return Harness(f"the-evaluate-stream[{'var' if with_var else 'novar'}]", run, spec=s,
                   covers=["completed", "less", "greater"])


def h_bound_mention():
    """a quantifier that is met again while it is already bound (selected by an enclosing query AND used in its condition) passes the
    bindings through and leaves the state of its running evaluation alone (nothing on the node is written except the parent pointer)"""
    def run(vm):
        ctx = vm.ctx
        for qcls in ("An", "The"):
            q, n = quantifier_obj(vm, qcls, None, True)
            q.fields["_is_false_"] = False
            before = {k: v for k, v in q.fields.items()}
            HV = cls(vm, "krrood.entity_query_language.hashed_data", "HashedValue")
            src = make_dict([(3, vm.alloc(HV, {"value": SInt(ctx.fresh_int("bound")), "id_": 0})), (7, vm.alloc(HV, {"value": SInt(ctx.fresh_int("sol")), "id_": 1}))])
            out = list(vm.iterate(vm.call(vm._getattr(q, "_evaluate__"), [src], {"parent": vm.alloc(cls(vm, SYM, "SymbolicExpression"), {"_id_": 99}, tag="enclosing")})))
            ok_out = len(out) == 1 and out[0].fields["bindings"] is src and out[0].fields["is_false"] is False
            ctx.check("ResultQuantifier._evaluate__::an-already-bound-quantifier-passes-the-bindings-through-once", z3.BoolVal(bool(ok_out)), detail=repr(out))
            changed = sorted(k for k in set(before) | set(q.fields) if k != "_eval_parent_" and (k not in before or k not in q.fields or q.fields[k] is not before[k]))
            ctx.check("ResultQuantifier._evaluate__::a-second-mention-leaves-the-running-evaluation-alone", z3.BoolVal(not changed), detail=f"{qcls}: fields written {changed}")
    return Harness("bound-mention", run, spec=make_spec())


def h_the_evaluate():
    """The.evaluate() == list(super().evaluate())[0] against the stream contract of The._evaluate__."""
    def run(vm):
        ctx = vm.ctx
        n = ctx.fresh_int("n", register=True)
        ctx.assume(n >= 0)
        from contracts.lib import UserVal, install_user_hooks
        install_user_hooks(vm)
        sol = UserVal("solution")      # an arbitrary value: its truth value, equality, ... are unconstrained
        q = vm.alloc(cls(vm, SYM, "The"), {}, tag="the")

        def results():
            # contract of ResultQuantifier.evaluate for The (proved by the-evaluate-stream + An.evaluate mapping)
            if ctx.branch(n == 0):
                raise PyRaise(vm.make_exc(cls(vm, FAIL, "NoSolutionFound")))
            yield sol
            if ctx.branch(n > 1):
                raise PyRaise(vm.make_exc(cls(vm, FAIL, "MultipleSolutionFound")))
        vm.spec.stubs["ResultQuantifier.evaluate"] = lambda vm_, a, k: GenObj(results(), "evaluate")
        try:
            r = vm.call_method(q, "evaluate")
        except PyRaise as pr:
            if exc_exact(vm, pr, "NoSolutionFound"):
                ctx.cover("none")
                ctx.check("The.evaluate::no-solution-iff-zero", n == 0)
            elif exc_exact(vm, pr, "MultipleSolutionFound"):
                ctx.cover("multiple")
                ctx.check("The.evaluate::multiple-iff-several", n > 1)
            else:
                ctx.fail("The.evaluate::only-solution-count-errors", detail=repr(pr.exc))
            return
        ctx.cover("one")
        ctx.check("The.evaluate::returns-the-solution-iff-one", z3.And(n == 1, z3.BoolVal(r is sol)))
    return Harness("the-evaluate", run, spec=Spec(), covers=["none", "multiple", "one"])


def h_evaluate_maps_results():
    """ResultQuantifier.evaluate: sweeps dead instances, then maps _process_result_ over _evaluate__ lazily, one to one."""
    def run(vm):
        from pyvc.values import Builtin, PyList
        ctx = vm.ctx
        q = vm.alloc(cls(vm, SYM, "An"), {}, tag="an")
        log = []
        vm.spec.stubs["SymbolGraph.__call__"] = lambda vm_, a, k: vm_.alloc(vm_.ext("object"), tag="graph")
        r1, r2 = vm.alloc(vm.ext("object"), tag="r1"), vm.alloc(vm.ext("object"), tag="r2")

        def inner():
            log.append("pull1")
            yield r1
            log.append("pull2")
            yield r2
            raise PyRaise(vm.make_exc(cls(vm, FAIL, "GreaterThanExpectedNumberOfSolutions")))
        vm.spec.stubs["ResultQuantifier._evaluate__"] = lambda vm_, a, k: GenObj(inner(), "_evaluate__")
        vm.spec.stubs["ResultQuantifier._process_result_"] = lambda vm_, a, k: ("processed", a[1])
        vm.spec.opaque_hooks["getattr"] = lambda vm_, o, name: (lambda *a, **k: None)
        # the nodes of the query (display-graph traversal abstracted): evaluate() announces the new evaluation to each of them
        started = []
        node = vm.alloc(vm.ext("object"), tag="some-node")
        node.fields["_start_evaluation_"] = Builtin("_start_evaluation_", lambda it, fr, a, k: started.append(tuple(log)))
        vm.spec.attr_hooks[("SymbolicExpression", "_all_nodes_")] = lambda it, o: PyList([node])
        graph_calls = []
        g = vm.alloc(vm.ext("object"), tag="graph")
        vm.spec.stubs["SymbolGraph.__call__"] = lambda vm_, a, k: g
        g.fields["remove_dead_instances"] = Builtin("sweep", lambda it, fr, a, k: graph_calls.append(tuple(log)))
        out = []
        raised = None
        try:
            for v in vm.iterate(vm.call_method(q, "evaluate")):
                out.append(v)
        except PyRaise as pr:
            raised = pr
        ok = (out == [("processed", r1), ("processed", r2)] and raised is not None
              and exc_exact(vm, raised, "GreaterThanExpectedNumberOfSolutions") and graph_calls == [()]
              and started in ([], [()]))          # if nodes are told about the new evaluation, then before anything is pulled
        ctx.check("ResultQuantifier.evaluate::sweeps-then-maps-each-result-and-propagates-errors", z3.BoolVal(ok),
                  detail=f"out={out} raised={raised} sweeps={graph_calls}")
    return Harness("evaluate-maps-results", run, spec=Spec())


def h_an_the_passthrough():
    """an(e, quantification=c) / the(e): the constraint object reaches the quantifier unchanged."""
    def run(vm):
        ctx = vm.ctx
        QE = "krrood.entity_query_language.quantify_entity"
        made = []

        def fake_ctor(name):
            def f(vm_, a, k):
                made.append((name, a[1:], k))
                return vm_.alloc(cls(vm_, SYM, name), {}, tag=name)
            return f
        class GraphNode(Opaque):
            def __init__(self, data, parent=None):
                super().__init__("expression-graph-node")
                self.data, self.parent = data, parent

            def m_getattr(self, vm_, name):
                if name in ("data", "parent"):
                    return getattr(self, name)
                if name == "root":
                    return self.parent.m_getattr(vm_, "root") if self.parent is not None else self
                vm_.raise_("AttributeError", name)

            def m_truth(self, vm_):
                return True
        vm.spec.stubs["An.__call__"] = fake_ctor("An")
        vm.spec.stubs["The.__call__"] = fake_ctor("The")
        ent = vm.alloc(cls(vm, SYM, "Entity"), {}, tag="entity")
        ent.fields["_node_"] = GraphNode(ent)
        c = vm.alloc(cls(vm, RQC, "Exactly"), {"value": 0}, tag="Exactly(0)")
        vm.call(vm.module_global(QE, "an"), [ent], {"quantification": c})
        vm.call(vm.module_global(QE, "an"), [ent], {})
        vm.call(vm.module_global(QE, "the"), [ent], {})
        ok = (len(made) == 3 and made[0][0] == "An" and made[0][1] == [ent] and made[0][2].get("_quantification_constraint_") is c
              and made[1][0] == "An" and made[1][2].get("_quantification_constraint_") is None
              and made[2][0] == "The" and made[2][1] == [ent] and not made[2][2])
        ctx.check("an/the::constraint-passed-through-unchanged", z3.BoolVal(ok), detail=repr(made))
        # pattern-matching descriptions (Match without a variable) are quantified through their expression
        del made[:]
        expr = vm.alloc(cls(vm, SYM, "Entity"), {}, tag="match-expression")
        expr.fields["_node_"] = GraphNode(expr)
        MATCH = "krrood.entity_query_language.match"
        m = vm.alloc(cls(vm, MATCH, "Match"), {"variable": None, "expression": expr}, tag="match")
        vm.call(vm.module_global(QE, "an"), [m], {"quantification": c})
        vm.call(vm.module_global(QE, "the"), [m], {})
        ok = (len(made) == 2 and made[0][0] == "An" and made[0][1] == [expr] and made[0][2].get("_quantification_constraint_") is c
              and made[1][0] == "The" and made[1][1] == [expr] and not made[1][2])
        ctx.check("an/the::constraint-passed-through-for-match-descriptions", z3.BoolVal(ok), detail=repr(made))
        # a description that is ALREADY the description of a quantifier (it was quantified before, with another constraint or none):
        # quantifying it again gives a new quantifier with the constraint stated now
        for old_kind, old_constraint in (("An", None), ("An", vm.alloc(cls(vm, RQC, "AtLeast"), {"value": 1}, tag="AtLeast(1)")), ("The", None)):
            earlier = vm.alloc(cls(vm, SYM, old_kind), {"_quantification_constraint_": old_constraint}, tag="earlier-" + old_kind)
            ent2 = vm.alloc(cls(vm, SYM, "Entity"), {}, tag="quantified-entity")
            earlier.fields["_child_"] = ent2
            earlier.fields["_node_"] = GraphNode(earlier)
            ent2.fields["_node_"] = GraphNode(ent2, earlier.fields["_node_"])
            for fn, kw, want_kind, want_c in (("an", {"quantification": c}, "An", c), ("an", {}, "An", None), ("the", {}, "The", None)):
                del made[:]
                r = vm.call(vm.module_global(QE, fn), [ent2], dict(kw))
                ok = (len(made) == 1 and made[0][0] == want_kind and made[0][1] == [ent2] and made[0][2].get("_quantification_constraint_") is want_c
                      and r is not earlier and isinstance(r, Obj) and r.tag == want_kind)
                ctx.check("an/the::a-description-quantified-before-gets-a-new-quantifier-with-the-constraint-stated-now", z3.BoolVal(bool(ok)),
                          detail=f"earlier {old_kind}({old_constraint!r}), now {fn}({kw}): constructed {made}, returned {r!r}")
    return Harness("an-the-passthrough", run, spec=Spec())


def h_canary():
    def run(vm):
        ctx = vm.ctx
        v = ctx.fresh_int("value", register=True)
        ctx.assume(v >= 0)
        o = vm.call(cls(vm, RQC, "AtMost"), [SInt(v)], {})
        # deliberately false: claims AtMost has lower bound 1
        check_assert_satisfaction(vm, "CANARY", o, z3.IntVal(1), v)
    return Harness("canary", run, expect_fail=True)


def harnesses():
    hs = [h_ctor_single(c) for c in SINGLE] + [h_ctor_range()]
    hs += [h_assert_single(c) for c in SINGLE] + [h_assert_range()]
    for has_c, has_u in ((False, False), (True, False), (True, True)):
        for wv in (False, True):
            hs.append(h_evaluate(has_c, has_u, wv))
    hs += [h_the_evaluate_stream(False), h_the_evaluate_stream(True), h_the_evaluate(), h_evaluate_maps_results(),
           h_an_the_passthrough(), h_bound_mention(), h_canary()]
    return hs
