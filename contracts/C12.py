"""C12 — predicates and symbolic functions agree between concrete and symbolic calls.

Contracts (from the property text):
  merge_args_and_kwargs(f, args, kwargs, ignore_first) == {names(f)[i+s]: args[i]} ∪ kwargs, s = 1 iff ignore_first
  call-site precondition: ignore_first  <=>  the first parameter of f is an implicit receiver that is NOT in args
  symbolic_function(f)(*a, **k): no variable among the arguments -> f(*a, **k) is called once, its result returned;
      otherwise a Variable is returned whose _kwargs_ bind every parameter to the value written in that position and f
      is not called
  Predicate subclasses: same through __new__
  evaluation: one invocation per combination of child values, with those values; is_false = not bool(result)
Arity is enumerated (0..3 parameters, every positional/keyword split, every position of the variable); argument
*values* are opaque, i.e. arbitrary.  That enumeration is stated in the evidence; it is not an unbounded-arity proof.
"""
from __future__ import annotations
import itertools
import z3

from pyvc.framework import Harness
from pyvc.interp import Spec, PyRaise, INLINE
from pyvc.values import SInt, SBool, Opaque, Builtin, PyList, PyDict, Obj, SymStream, GenObj
from pyvc.ops import make_dict, dict_items, key_of
from pyvc.repo import ClassInfo
from .lib import UserVal, UserFn, install_user_hooks

PROPERTY = "C12"
PRED = "krrood.entity_query_language.predicate"
SYM = "krrood.entity_query_language.symbolic"
FUNCTIONS = [(PRED, "merge_args_and_kwargs"), (PRED, "get_function_argument_names"), (PRED, "symbolic_function"), (PRED, "Predicate.__new__"),
             (PRED, "Symbol.__new__"), (PRED, "update_cache"), (PRED, "HasType.__call__"),
             (SYM, "_any_of_the_kwargs_is_a_variable"),
             (SYM, "Variable._instantiate_using_child_vars_and_yield_results_"),
             (SYM, "Variable._generate_combinations_for_child_vars_values_"), (SYM, "Variable._child_vars_combinations_from_"),
             (SYM, "Variable._process_output_and_update_values_")]
ASSUMPTIONS = [
    "inspect.signature(f).parameters lists the parameters of f in declaration order; for a dataclass without explicit "
    "__init__ that is self followed by the init fields in dataclass order",
    "zip stops at the shorter argument; dict comprehension / dict.update have Python semantics",
    "argument streams are abstract streams of any length (loop rule); their elements extend the bindings they were evaluated under",
    "user functions and predicates are opaque: their result is an arbitrary value whose truth value is arbitrary",
]
TRUSTED = ["assumed contract of inspect.signature"]
# a refactoring that fills left-out parameters with their CORRECT defaults changes the structure this obligation pins, not the
# behaviour: reported only with a native witness
NEEDS_WITNESS = ["Variable.__post_init__::exactly-the-written-arguments-become-child-variables"]
BOUNDED_ONLY_CLAUSES = ["arity is enumerated for 0..3 parameters (values are symbolic/opaque, shapes are exhaustive up to that arity)"]

SYNTH = '''
from dataclasses import dataclass
from typing_extensions import Any
from krrood.entity_query_language.predicate import Predicate


@dataclass(eq=False)
class P1(Predicate):
    a: Any

    def __call__(self):
        return self.a


@dataclass(eq=False)
class P3(Predicate):
    is_expensive = True          # a flag the base class declares; overriding it must not change what the predicate means
    a: Any
    b: Any
    c: Any = None

    def __call__(self):
        return self.b
'''


def cls(vm, mod, name):
    return vm.loader.cls(mod, name)


def names_of(vm, fn):
    """Assumed contract of inspect.signature(fn).parameters.keys()."""
    if isinstance(fn, UserFn):
        return list(fn.params)
    if isinstance(fn, Builtin) and fn.name.endswith(".__init__"):
        cname = fn.name[: -len(".__init__")]
        for m in vm.loader.modules.values():
            if m is not None and cname in m.classes:
                c = m.classes[cname]
                return ["self"] + [f.name for f in c.dataclass_fields(vm.loader) if f.init]
    from pyvc.values import FuncVal, BoundMethod
    if isinstance(fn, BoundMethod):
        return names_of(vm, fn.func)[1:]
    if isinstance(fn, FuncVal):
        a = fn.node.args
        return [p.arg for p in a.posonlyargs + a.args] + ([a.vararg.arg] if a.vararg else []) + \
            [p.arg for p in a.kwonlyargs] + ([a.kwarg.arg] if a.kwarg else [])
    raise AssertionError(f"signature of {fn!r}")


def install(vm):
    install_user_hooks(vm)
    # assumed contract of inspect.signature(f).parameters (an ordered mapping of the parameters of *that* callable)
    def signature(it, fr, a, k):
        o = it.alloc(it.ext("object"), {}, tag="signature")
        o.fields["parameters"] = make_dict([(n, None) for n in names_of(it, a[0])])
        return o
    vm.builtins = dict(vm.builtins)
    vm.builtins["inspect.signature"] = Builtin("inspect.signature", signature)
    made = []

    def fake_variable(it, a, k):
        v = it.alloc(cls(it, SYM, "Variable"), dict(k), tag="built-variable")
        made.append((a[1:], k))
        return v
    vm.spec.stubs["Variable.__call__"] = fake_variable

    def call_hook(it, fn, args, kwargs):
        if isinstance(fn, UserFn):
            fn.calls.append((list(args), dict(kwargs)))
            r = UserVal(f"{fn.name}()#{len(fn.calls)}")
            return r
        it.ctx.effect("user", ("call", getattr(fn, "name", "?")))
        return UserVal("call")
    vm.spec.opaque_hooks["call"] = call_hook
    g = vm.spec.opaque_hooks["getattr"]

    def getattr_(it, v, name):
        if isinstance(v, UserFn) and name in ("__name__", "__qualname__"):
            return v.name
        if isinstance(v, UserFn) and name == "__module__":
            return "user_module"
        if isinstance(v, UserFn) and name == "__defaults__":
            return getattr(v, "defaults", None)
        if isinstance(v, UserFn) and name == "__kwdefaults__":
            return getattr(v, "kwdefaults", None)
        return g(it, v, name)
    vm.spec.opaque_hooks["getattr"] = getattr_
    return made


def variable_like_classes(vm):
    """everything a user can write in argument position that stands for a value of a query: variables, attribute / index /
    call / flatten mappings of them, nested an()/the() sub-queries -- the concrete subclasses of CanBehaveLikeAVariable"""
    base = cls(vm, SYM, "CanBehaveLikeAVariable")
    out = []
    for c in vm.loader.module(SYM).classes.values():
        if c is not base and vm.is_subclass(c, base) is True and c.name not in ("DomainMapping", "ResultQuantifier", "Literal"):
            out.append(c)
    return sorted(out, key=lambda c: (c.name != "Variable", c.name))


def dict_is(d, expected):
    """PyDict d has exactly the keys of `expected` (dict name->value) with identical values."""
    if not isinstance(d, PyDict):
        return False
    items = dict_items(d)
    if len(items) != len(expected):
        return False
    for k, v in items:
        if k not in expected or expected[k] is not v:
            return False
    return True


def splits(n):
    """(P, kw): P leading positional arguments and any subset of the remaining parameters given by keyword (parameters
    that are left out have defaults)."""
    for p in range(n + 1):
        rest = list(range(p, n))
        for r in range(len(rest), -1, -1):
            for kw in itertools.combinations(rest, r):
                yield p, list(kw)


# ------------------------------------------------------------------ merge_args_and_kwargs
def h_merge():
    def run(vm):
        ctx = vm.ctx
        install(vm)
        merge = vm.module_global(PRED, "merge_args_and_kwargs")
        cases = 0
        for n in range(0, 4):
            for ignore_first in (True, False):
                params = [f"p{i}" for i in range(n)]
                fn = UserFn("f", (["self"] if ignore_first else []) + params)
                for p, kw in splits(n):
                    vals = [UserVal(f"a{i}") for i in range(n)]
                    args = tuple(vals[:p])
                    kwargs = make_dict([(params[i], vals[i]) for i in kw])
                    expected = {params[i]: vals[i] for i in list(range(p)) + kw}
                    for explicit in ((True,) if ignore_first else (False,)):
                        call_kw = {"ignore_first": explicit}
                        r = vm.call(merge, [fn, args, kwargs], call_kw)
                        cases += 1
                        ctx.check("merge_args_and_kwargs::binds-each-parameter-to-the-argument-in-its-position",
                                  z3.BoolVal(dict_is(r, expected)), detail=f"n={n} ignore_first={ignore_first} P={p} kw={kw} -> {r!r}")
                    if ignore_first:
                        r = vm.call(merge, [fn, args, kwargs], {})
                        ctx.check("merge_args_and_kwargs::default-ignores-first-parameter", z3.BoolVal(dict_is(r, expected)),
                                  detail=f"n={n} P={p} -> {r!r}")
        ctx.inputs["cases"] = cases
    return Harness("merge", run, spec=Spec())


def h_argument_names():
    """get_function_argument_names answers for the callable it is given, also when another callable with the same
    module and qualified name (a redefinition, a factory product) was asked about before."""
    def run(vm):
        ctx = vm.ctx
        install(vm)
        gfan = vm.module_global(PRED, "get_function_argument_names")
        f1, f2 = UserFn("helper", ["a", "b"]), UserFn("helper", ["x", "y", "z"])
        r1 = vm.call(gfan, [f1], {})
        r2 = vm.call(gfan, [f2], {})
        r3 = vm.call(gfan, [f1], {})
        ok = [vm.to_list(r) for r in (r1, r2, r3)] == [["a", "b"], ["x", "y", "z"], ["a", "b"]]
        ctx.check("get_function_argument_names::answers-for-the-callable-it-is-given", z3.BoolVal(ok), detail=f"{r1} {r2} {r3}")
    return Harness("argument-names", run, spec=Spec())


# ------------------------------------------------------------------ symbolic_function
def h_symbolic_function():
    def run(vm):
        ctx = vm.ctx
        made = install(vm)
        deco = vm.module_global(PRED, "symbolic_function")
        Var = cls(vm, SYM, "Variable")
        kinds = variable_like_classes(vm)
        ctx.check("symbolic_function::argument-kinds-enumerated", z3.BoolVal(len(kinds) >= 6 and kinds[0] is Var), detail=repr([c.name for c in kinds]))
        for n, VarLike in [(n_, Var) for n_ in range(1, 4)] + [(2, c_) for c_ in kinds[1:]]:
            params = [f"p{i}" for i in range(n)]
            for p, kw in splits(n):
                given = list(range(p)) + kw
                for var_at in ([None] if VarLike is Var else []) + given:
                    fn = UserFn("userfn", params)
                    wrapper = vm.call(deco, [fn], {})
                    vals = [UserVal(f"a{i}") for i in range(n)]
                    if var_at is not None:
                        vals[var_at] = vm.alloc(VarLike, {"_id_": 100 + var_at}, tag="query-" + VarLike.name)
                    args = vals[:p]
                    kwargs = {params[i]: vals[i] for i in kw}
                    del made[:]
                    r = vm.call(wrapper, args, kwargs)
                    shape = f"n={n} positional={p} keyword={kw} variable_at={var_at} ({VarLike.name})"
                    if var_at is None:
                        ok = (len(fn.calls) == 1 and len(fn.calls[0][0]) == p and all(x is y for x, y in zip(fn.calls[0][0], args))
                              and set(fn.calls[0][1]) == set(kwargs) and all(fn.calls[0][1][k] is kwargs[k] for k in kwargs)
                              and isinstance(r, UserVal) and r.name == "userfn()#1" and not made)
                        ctx.check("symbolic_function::concrete-call-runs-once-and-returns-plain-result", z3.BoolVal(ok),
                                  detail=f"{shape}: calls={fn.calls} r={r!r} made={made}")
                    else:
                        expected = {params[i]: vals[i] for i in given}
                        ok_var = isinstance(r, Obj) and r.cls is Var and len(made) == 1
                        ctx.check("symbolic_function::variable-argument-returns-condition-without-running", z3.BoolVal(ok_var and not fn.calls),
                                  detail=f"{shape}: r={r!r} calls={fn.calls}")
                        if ok_var:
                            kw_made = made[0][1]
                            ctx.check("symbolic_function::each-parameter-bound-to-the-value-written-in-its-position",
                                      z3.BoolVal(dict_is(kw_made.get("_kwargs_"), expected)),
                                      detail=f"{shape}: _kwargs_={kw_made.get('_kwargs_')!r} expected={expected}")
                            pt = kw_made.get("_predicate_type_")
                            ctx.check("symbolic_function::variable-carries-the-function",
                                      z3.BoolVal(kw_made.get("_type_") is fn and isinstance(pt, Obj) and pt.fields.get("name") == "DecoratedMethod"),
                                      detail=repr(kw_made))
    return Harness("symbolic_function", run, spec=Spec())


# ------------------------------------------------------------------ Predicate.__new__
def h_predicate_new():
    def run(vm):
        ctx = vm.ctx
        made = install(vm)
        vm.loader.add_module("pyvc_synth_c12", SYNTH)
        Var = cls(vm, SYM, "Variable")
        for (mod, cname, fields, required) in ((PRED, "HasType", ["variable", "types_"], 2), ("pyvc_synth_c12", "P1", ["a"], 1),
                                               ("pyvc_synth_c12", "P3", ["a", "b", "c"], 2), (PRED, "HasTypes", ["variable", "types_"], 2)):
            C = cls(vm, mod, cname)
            for n, VarLike in [(n_, Var) for n_ in range(required, len(fields) + 1)] + ([(2, c_) for c_ in variable_like_classes(vm)[1:]] if cname == "P3" else []):
                for p, kw in splits(n):
                    if p + len(kw) != n:
                        continue
                    for var_at in ([None] if VarLike is Var else []) + list(range(n)):
                        vals = [UserVal(f"a{i}") for i in range(n)]
                        if cname.startswith("HasType"):
                            vals[1] = cls(vm, SYM, "Variable")   # a type to test against
                        if var_at is not None:
                            vals[var_at] = vm.alloc(VarLike, {"_id_": 200 + var_at}, tag="query-" + VarLike.name)
                        args = vals[:p]
                        kwargs = {fields[i]: vals[i] for i in kw}
                        del made[:]
                        shape = f"{cname} n={n} positional={p} keyword={kw} variable_at={var_at} ({VarLike.name})"
                        r = vm.call(C, args, kwargs)
                        if var_at is None:
                            ok = isinstance(r, Obj) and r.cls is C and not made and all(r.fields.get(fields[i]) is vals[i] for i in range(n))
                            ctx.check("Predicate.__new__::concrete-arguments-construct-the-plain-instance", z3.BoolVal(ok), detail=f"{shape}: {r!r}")
                        else:
                            expected = {fields[i]: vals[i] for i in range(n)}
                            ok_var = isinstance(r, Obj) and r.cls is Var and len(made) == 1
                            ctx.check("Predicate.__new__::variable-argument-returns-condition-without-constructing", z3.BoolVal(ok_var),
                                      detail=f"{shape}: {r!r}")
                            if ok_var:
                                kw_made = made[0][1]
                                ctx.check("Predicate.__new__::each-field-bound-to-the-value-written-in-its-position",
                                          z3.BoolVal(dict_is(kw_made.get("_kwargs_"), expected)),
                                          detail=f"{shape}: _kwargs_={kw_made.get('_kwargs_')!r}")
                                pt = kw_made.get("_predicate_type_")
                                ctx.check("Predicate.__new__::variable-carries-the-class",
                                          z3.BoolVal(kw_made.get("_type_") is C and isinstance(pt, Obj) and pt.fields.get("name") == "SubClassOfPredicate"),
                                          detail=repr(kw_made))
        # HasType()() is isinstance
        HT = cls(vm, PRED, "HasType")
        v = vm.alloc(cls(vm, SYM, "SetOf"), {"_id_": 1}, tag="some-object")
        inst = vm.call(HT, [v, cls(vm, SYM, "QueryObjectDescriptor")], {})
        ctx.check("HasType.__call__::is-isinstance", z3.BoolVal(vm.call(inst, [], {}) is True and
                                                                  vm.call(vm.call(HT, [v, cls(vm, SYM, "Literal")], {}), [], {}) is False))
        # a predicate instance is not registered in the symbol graph (update_cache), a plain Symbol is
    return Harness("predicate-new", run, spec=Spec())


# ------------------------------------------------------------------ evaluation: one invocation per binding
def h_instantiate(kind, n_children):
    def run(vm):
        ctx = vm.ctx
        install(vm)
        vm.loader.add_module("pyvc_synth_c12", SYNTH)
        Var = cls(vm, SYM, "Variable")
        OR = cls(vm, SYM, "OperationResult")
        HV = cls(vm, "krrood.entity_query_language.hashed_data", "HashedValue")
        names = ["a", "b", "c"][:n_children]
        children = {k: vm.alloc(Var, {"_id_": 10 + i}, tag=f"child-{k}") for i, k in enumerate(names)}
        sources = make_dict([(99, vm.alloc(HV, {"value": UserVal("outer"), "id_": 99}))])
        child_calls = []
        combo = {}
        src_id = 99

        def child_eval(it, a, k):
            selfo = a[0]
            if not (selfo.tag and selfo.tag.startswith("child-")):
                return INLINE
            src = a[1] if len(a) > 1 else k.get("sources")
            kk = selfo.tag[len("child-"):]
            child_calls.append((kk, src))

            def elem(it2, idx):
                hv = it2.alloc(HV, {"value": UserVal(f"val_{kk}"), "id_": 500 + len(combo)})
                inner = it2.alloc(HV, {"value": UserVal(f"bound_inside_{kk}"), "id_": 900 + len(combo)})
                b = make_dict(dict_items(src) + [(selfo.fields["_id_"], hv), (7000 + selfo.fields["_id_"], inner)])
                combo[kk] = hv
                return it2.alloc(OR, {"bindings": b, "is_false": False, "operand": selfo})
            return SymStream(f"stream-{kk}", elem, length=ctx.fresh_int(f"n_{kk}"), meta={"kind": "generator"})
        vm.spec.stubs["Variable._evaluate__"] = child_eval
        # the argument streams are contract stubs: the by-name call graph behind `_evaluate__` (which reaches code that assigns
        # result.bindings elsewhere) is not executed in these loops
        vm.spec.havoc_exclude = {"bindings", "_eval_parent_", "_is_false_"}
        if kind == "function":
            typ = UserFn("pred", names)
            ptype = vm._getattr(cls(vm, "krrood.entity_query_language.enums", "PredicateType"), "DecoratedMethod")
        else:
            typ = cls(vm, "pyvc_synth_c12", {1: "P1", 2: "P3", 3: "P3"}[n_children])
            ptype = vm._getattr(cls(vm, "krrood.entity_query_language.enums", "PredicateType"), "SubClassOfPredicate")
        # state that outlives one use of the predicate (class-level containers of the expression classes: registries, memo
        # tables) is ARBITRARY when this use starts: other nodes, other queries, earlier bindings may have filled it
        from .lib import arbitrary_class_state
        arbitrary_class_state(vm, Var, lambda it2: UserVal("something-remembered-from-elsewhere"))
        me = vm.alloc(Var, {"_id_": 5, "_type_": typ, "_predicate_type_": ptype, "_child_vars_": make_dict(list(children.items())),
                            "_is_inferred_": False, "_is_false_": False,
                            # evaluated as a condition below a conjunction (the role was decided when the evaluation was entered)
                            "_eval_parent_": vm.alloc(cls(vm, SYM, "AND"), {"_id_": 4}, tag="enclosing-conjunction"),
                            "_conditions_root_": vm.alloc(cls(vm, SYM, "SymbolicExpression"), {"_id_": 1}, tag="conditions-root")}, tag="predicate-variable")
        # consistent truth value per user object
        truths = {}

        def truth(it, v):
            if v.oid not in truths:
                truths[v.oid] = ctx.fresh_bool(f"truth_{v.name}")
            return SBool(truths[v.oid])
        vm.spec.opaque_hooks["truth"] = truth
        vm.spec.opaque_hooks["id"] = lambda it, v: 700000 + v.oid
        gen = vm.call_method(me, "_instantiate_using_child_vars_and_yield_results_", sources)
        count = 0
        for res in vm.iterate(gen):
            count += 1
            ctx.cover("yielded")
            if kind == "function":
                calls = typ.calls
                ok = len(calls) == 1 and not calls[0][0] and set(calls[0][1]) == set(names) and all(
                    calls[0][1][k] is combo[k].fields["value"] for k in names)
                ctx.check("Variable._instantiate::function-invoked-once-with-the-values-of-this-binding", z3.BoolVal(ok), detail=repr(calls))
                result = res.fields["bindings"].vals.get(key_of(5))
                okr = isinstance(result, Obj) and result.cls is HV and isinstance(result.fields["value"], UserVal) and result.fields["value"].name == "pred()#1"
                ctx.check("Variable._instantiate::result-bound-to-the-variable", z3.BoolVal(okr), detail=repr(result))
                if okr:
                    t = truths.get(result.fields["value"].oid)
                    isf = res.fields["is_false"]
                    ctx.check("Variable._instantiate::truth-value-is-that-of-the-concrete-result",
                              z3.BoolVal(t is not None) if t is None else (z3.BoolVal(isf) if isinstance(isf, bool) else isf.t) == z3.Not(t))
            else:
                result = res.fields["bindings"].vals.get(key_of(5))
                # P1()() returns a ; P3()() returns b — the predicate instance is constructed from this binding and called once
                want = combo["a"].fields["value"] if n_children == 1 else combo["b"].fields["value"]
                okr = isinstance(result, Obj) and result.fields["value"] is want
                ctx.check("Variable._instantiate::predicate-instance-built-from-binding-and-called", z3.BoolVal(okr), detail=repr(result))
                t = truths.get(want.oid)
                isf = res.fields["is_false"]
                ctx.check("Variable._instantiate::truth-value-is-that-of-the-concrete-result",
                          z3.BoolVal(False) if t is None else (z3.BoolVal(isf) if isinstance(isf, bool) else isf.t) == z3.Not(t))
            # the rule selectors read an operand's truth off the NODE: a condition records the flag it yields before it yields
            nf, rf = me.fields.get("_is_false_"), res.fields["is_false"]
            same_flag = (nf is rf) or (isinstance(nf, SBool) and isinstance(rf, SBool) and z3.eq(z3.simplify(nf.t), z3.simplify(rf.t))) or \
                (isinstance(nf, bool) and isinstance(rf, bool) and nf == rf)
            ctx.check("Variable._instantiate::as-a-condition-the-node-records-the-flag-it-yields", z3.BoolVal(bool(same_flag)), detail=f"node {nf!r}, result {rf!r}")
            b = res.fields["bindings"]
            ok_b = all(b.vals.get(key_of(children[k].fields["_id_"])) is combo[k] for k in names) and key_of(99) in b.vals
            # every argument is evaluated under ALL the bindings of the previous ones (also what a previous argument bound on its
            # way, e.g. the variable x inside x.low), the first under the incoming bindings
            ok_thread = [kk for kk, _ in child_calls[:len(names)]] == names and child_calls[0][1] is sources and all(
                key_of(children[names[j]].fields["_id_"]) in child_calls[i][1].vals and key_of(7000 + children[names[j]].fields["_id_"]) in child_calls[i][1].vals
                for i in range(1, len(names)) for j in range(i))
            ctx.check("Variable._generate_combinations_for_child_vars_values_::arguments-are-evaluated-under-the-bindings-of-the-previous-ones",
                      z3.BoolVal(bool(ok_thread)), detail=repr([(kk, s_) for kk, s_ in child_calls]))
            ctx.check("Variable._instantiate::child-and-outer-bindings-kept", z3.BoolVal(ok_b), detail=repr(b))
            ctx.check("Variable._instantiate::operand-is-self", z3.BoolVal(res.fields["operand"] is me))
        ctx.check("Variable._instantiate::one-result-per-combination", z3.BoolVal(count <= 1))
    return Harness(f"instantiate-{kind}-{n_children}", run, spec=Spec(), covers=["yielded"])


def h_result_role():
    """the result of a predicate / symbolic function is a CONDITION where it stands below a logical operator or is the whole
    condition of the query (its truth value is what the concrete call returns) and a VALUE where it is an operand (a falsy
    result is reported like any other)"""
    def run(vm):
        ctx = vm.ctx
        install(vm)
        Var = cls(vm, SYM, "Variable")
        seen = []

        def fake_instantiate(it, a, k):
            seen.append(a[2] if len(a) > 2 else k.get("is_condition", "default"))
            return GenObj(iter(()), "no-combinations")
        vm.spec.stubs["Variable._instantiate_using_child_vars_and_yield_results_"] = fake_instantiate
        root = vm.alloc(cls(vm, SYM, "SymbolicExpression"), {"_id_": 1}, tag="conditions-root")
        for pname, want in (("Comparator", False), ("AND", True), ("Not", True), ("ElseIf", True)):
            parent = vm.alloc(cls(vm, SYM, pname), {"_id_": 10}, tag="parent-" + pname)
            me = vm.alloc(Var, {"_id_": 5, "_type_": UserFn("pred", ["a"]), "_domain_": PyList([]), "_conditions_root_": root, "_eval_parent_": None,
                                "_should_be_instantiated_": True, "_is_false_": False}, tag="predicate-variable")
            del seen[:]
            list(vm.iterate(vm.call(vm._getattr(me, "_evaluate__"), [make_dict([])], {"parent": parent})))
            ctx.check("Variable._evaluate__::a-predicate-result-is-a-condition-below-a-logical-operator-and-a-value-as-an-operand",
                      z3.BoolVal(seen == [want]), detail=f"below {pname}: is_condition={seen}")
        # the whole condition of a (possibly nested: the outermost conditions root is another node) query / a selected expression
        for dname in ("Entity", "SetOf"):
            for position, want in (("condition", True), ("selected", False)):
                me = vm.alloc(Var, {"_id_": 5, "_type_": UserFn("pred", ["a"]), "_domain_": PyList([]), "_eval_parent_": None, "_should_be_instantiated_": True, "_is_false_": False,
                                    "_conditions_root_": root}, tag="predicate-variable")
                desc = vm.alloc(cls(vm, SYM, dname), {"_id_": 11, "_child_": me if position == "condition" else root}, tag="descriptor")
                del seen[:]
                list(vm.iterate(vm.call(vm._getattr(me, "_evaluate__"), [make_dict([])], {"parent": desc})))
                ctx.check("Variable._evaluate__::a-predicate-that-is-the-whole-condition-is-a-condition" if want else
                          "Variable._evaluate__::a-predicate-result-that-is-selected-is-a-value", z3.BoolVal(seen == [want]), detail=f"{position} of {dname}: is_condition={seen}")
        del vm.spec.stubs["Variable._instantiate_using_child_vars_and_yield_results_"]
        # the flag of the result
        for is_condition in (True, False):
            me = vm.alloc(Var, {"_id_": 5}, tag="predicate-variable")
            val = UserVal("result")
            base = len(vm.ctx.effects)
            r = vm.call_method(me, "_process_output_and_update_values_", val, make_dict([]), is_condition)
            isf = r.fields["is_false"]
            if is_condition:
                ctx.check("Variable._process_output_and_update_values_::as-a-condition-the-flag-is-the-falsity-of-the-result", z3.BoolVal(isinstance(isf, (SBool, bool))))
            else:
                ctx.check("Variable._process_output_and_update_values_::as-an-operand-the-result-is-never-reported-false", z3.BoolVal(isf is False), detail=repr(isf))
    return Harness("result-role", run, spec=Spec())


def h_predicate_variable_init():
    """the condition a symbolic call builds keeps exactly the arguments that were written: every parameter given maps to the same
    expression (if symbolic) or to its OWN Literal over exactly that constant (0 / False / 1 / True / 1.0 stay apart); parameters
    that were left out are not invented (the callable's own defaults apply when it is invoked)"""
    def run(vm):
        ctx = vm.ctx
        install(vm)
        Var = cls(vm, SYM, "Variable")
        lits = []

        def literal_ctor(it, a, k):
            o = it.alloc(cls(it, SYM, "Literal"), {"built_value": a[1] if len(a) > 1 else k.get("data"), "built_name": k.get("name")}, tag="literal")
            lits.append(o)
            return o
        vm.spec.stubs["Literal.__call__"] = literal_ctor
        vm.spec.stubs["SymbolicExpression._update_children_"] = lambda it, a, k: tuple(a[1:])
        sym = vm.alloc(Var, {"_id_": 300}, tag="symbolic-argument")
        u = UserVal("user-constant")
        given = [("a", 0), ("b", False), ("c", 1), ("d", True), ("e", 1.0), ("f", u), ("g", sym), ("h", None), ("i", "")]
        fn = UserFn("pred", [k for k, _ in given] + ["left_out", "kwonly"])
        fn.defaults = (UserVal("default-of-left_out"),)           # def pred(a, ..., i, left_out=<default>, *, kwonly=<default>)
        fn.kwdefaults = make_dict([("kwonly", UserVal("default-of-kwonly"))])
        base_truth = vm.spec.opaque_hooks["truth"]
        vm.spec.opaque_hooks["truth"] = lambda it, v: True if isinstance(v, UserFn) else base_truth(it, v)      # a function object is truthy
        ptype = vm._getattr(cls(vm, "krrood.entity_query_language.enums", "PredicateType"), "DecoratedMethod")
        me = vm.alloc(Var, {"_id_": 5, "_type_": fn, "_kwargs_": make_dict(given), "_child_vars_": make_dict([]), "_domain_source_": None,
                            "_name__": "pred", "_predicate_type_": ptype, "_child_": None}, tag="predicate-variable")
        vm.call_method(me, "_validate_inputs_and_fill_missing_ones_")
        vm.call_method(me, "_update_child_vars_from_kwargs_")
        cv = dict(dict_items(me.fields["_child_vars_"]))
        ctx.check("Variable.__post_init__::exactly-the-written-arguments-become-child-variables", z3.BoolVal(list(cv) == [k for k, _ in given]), detail=repr(list(cv)))
        ok = True
        bad = []
        for k, v in given:
            c = cv.get(k)
            if v is sym:
                good = c is sym
            else:
                good = isinstance(c, Obj) and c.tag == "literal" and (c.fields["built_value"] is v or (type(c.fields["built_value"]) is type(v) and c.fields["built_value"] == v and not isinstance(v, UserVal)))
            if not good:
                bad.append((k, v, getattr(c, "fields", c)))
        distinct = len({id(c) for c in cv.values()}) == len(cv)
        ctx.check("Variable.__post_init__::every-constant-argument-gets-its-own-literal-over-exactly-that-value", z3.BoolVal(not bad and distinct), detail=repr(bad))
    return Harness("predicate-variable-init", run, spec=Spec())


def h_canary():
    def run(vm):
        install(vm)
        merge = vm.module_global(PRED, "merge_args_and_kwargs")
        fn = UserFn("f", ["p0", "p1"])
        a0 = UserVal("a0")
        r = vm.call(merge, [fn, (a0,), make_dict([])], {"ignore_first": False})
        # deliberately false: claims the positional argument lands on the second parameter
        vm.ctx.check("CANARY", z3.BoolVal(dict_is(r, {"p1": a0})))
    return Harness("canary", run, expect_fail=True)


def harnesses():
    hs = [h_merge(), h_argument_names(), h_symbolic_function(), h_predicate_new(), h_predicate_variable_init(), h_result_role()]
    for kind in ("function", "predicate"):
        for n in (1, 2, 3):
            hs.append(h_instantiate(kind, n))
    hs.append(h_canary())
    return hs
