"""C07 — an EQL query translated to SQL selects the same entities as in-memory evaluation.

What the statement means on the database is SQLAlchemy's and SQLite's semantics, which no contract on krrood's code can carry;
that half is decided by the bounded driver (same query, in memory and on an in-memory database).  Contracts on the real
bodies of eql_interface.py cover the STRUCTURE of the translation and the REJECTION half:

  EQLTranslator.translate_query   AND -> translate_and, OR -> translate_or, Comparator -> translate_comparator, Attribute ->
                                  translate_attribute; EVERY other expression class of symbolic.py / conclusion_selector.py
                                  (Not, ForAll, Exists, ExceptIf, variables, literals, quantifiers, ...) is rejected with an
                                  UnsupportedQueryTypeError - enumerated from the real class hierarchy on every run
  translate_and / translate_or    the SQL conjunction / disjunction of the translations of BOTH operands (a part that became a
                                  join is dropped, a single part stands alone)
  OperatorMapper.map_comparison_operator   == > < >= <= map to the same operator on the operands, != to the NULL-safe
                                  IS DISTINCT FROM; an unknown operator is an UnsupportedOperatorError
  translate_attribute             an attribute chain that starts at a variable which is neither selected nor joined is rejected;
                                  no DAO class -> MissingDAOError; no base class -> AttributeResolutionError
  _walk_attribute_chain           a non-relationship in the middle of a chain, or an unknown column, is an AttributeResolutionError
  EQLTranslator.evaluate          The -> exactly one row (one()), An -> all rows, any other quantifier -> UnsupportedQuantifierError
  translate                       no DAO class for the selected type -> MissingDAOError; the statement selects that DAO class
  module-wide                     every `raise` in eql_interface.py raises a subclass of EQLTranslationError
"""
from __future__ import annotations
import ast
import z3

from pyvc.framework import Harness
from pyvc.interp import Spec, PyRaise, INLINE
from pyvc.values import Obj, PyList, Builtin, Opaque
from pyvc.ops import make_dict
from pyvc.repo import ClassInfo

PROPERTY = "C07"
EI = "krrood.ormatic.eql_interface"
SYM = "krrood.entity_query_language.symbolic"
CS = "krrood.entity_query_language.conclusion_selector"
FUNCTIONS = [(EI, "EQLTranslator.translate_query"), (EI, "EQLTranslator.translate_and"), (EI, "EQLTranslator.translate_or"),
             (EI, "EQLTranslator._collect_logical_parts"), (EI, "EQLTranslator._combine_logical_parts"),
             (EI, "OperatorMapper.map_comparison_operator"), (EI, "OperatorMapper.map_contains_operator"), (EI, "EQLTranslator.translate_attribute"), (EI, "EQLTranslator.translate_comparator"), (EI, "EQLTranslator._handle_contains_operator"),
             (EI, "EQLTranslator._assert_variable_is_selected_or_joined"), (EI, "EQLTranslator._walk_attribute_chain"),
             (EI, "EQLTranslator._collect_attribute_chain"), (EI, "EQLTranslator._extract_base_class"),
             (EI, "EQLTranslator.evaluate"), (EI, "EQLTranslator.translate"), (EI, "AttributeChainResolver.extract_leaf_variable"),
             (EI, "VariableTypeExtractor.extract"), (EI, "JoinManager.add_table_join"), (EI, "JoinManager.is_table_joined"),
             (EI, "eql_to_sql")]
ASSUMPTIONS = [
    "SQLAlchemy column operators (==, <, IS DISTINCT FROM, in_, and_, or_, select, join) mean what their names say on SQLite "
    "(validated natively by the bounded driver on every run)",
    "SQL instr(a, b) > 0 is the exact, case-sensitive substring test `b in a` of Python strings (true on SQLite); LIKE-based operators are not",
    "get_dao_class maps a class to its generated DAO (C13 registry) and the DAO's columns carry the field values (C04 / C06)",
]
TRUSTED = ["SQLAlchemy / SQLite semantics"]
BOUNDED_ONLY_CLAUSES = ["that an accepted query selects the same entities on the database as in memory (incl. the(...) failing in both worlds)",
                        "relationship-equality joins (set operators of SQLAlchemy); the contains / in_ forms are pinned to `IN` / `instr` terms deductively, what those mean on the database is bounded"]


def cls(vm, mod, name):
    return vm.loader.cls(mod, name)


class Sql(Opaque):
    """a symbolic SQL expression tree: every operator applied to it is recorded"""

    def __init__(self, term):
        super().__init__("sql")
        self.term = term

    def __repr__(self):
        return f"Sql{self.term!r}"

    def m_eq(self, vm, other):
        return Sql(("==", self.term, term_of(other)))

    def m_getattr(self, vm, name):
        if name == "is_distinct_from":
            return Builtin("is_distinct_from", lambda it, fr, a, k: Sql(("is_distinct_from", self.term, term_of(a[0]))))
        if name == "in_":
            return Builtin("in_", lambda it, fr, a, k: Sql(("in", self.term, term_of(a[0]))))
        if name in ("contains", "like", "ilike", "startswith", "endswith", "icontains"):
            # pattern matching (LIKE): wildcards in the text and backend collation -- not Python's substring test
            return Builtin(name, lambda it, fr, a, k: Sql(("like:" + name, self.term, term_of(a[0]))))
        vm.raise_("AttributeError", name)

    def m_truth(self, vm):
        return True

    def m_isinstance(self, vm, c):
        return False          # a column / SQL expression is no str, list, tuple or set


def term_of(x):
    return x.term if isinstance(x, Sql) else x


def install_sql(vm):
    import ast as _a
    names = {_a.Lt: "<", _a.Gt: ">", _a.LtE: "<=", _a.GtE: ">=", _a.NotEq: "!=", _a.Eq: "=="}

    def order(it, dunder, a, b):
        sym = {"__lt__": "<", "__gt__": ">", "__le__": "<=", "__ge__": ">=", "__ne__": "!=", "__eq__": "=="}.get(dunder, dunder)
        return Sql((sym, term_of(a), term_of(b)))
    vm.spec.opaque_hooks["order"] = order
    vm.spec.opaque_hooks["eq"] = lambda it, a, b: Sql(("==", term_of(a), term_of(b)))
    vm.spec.opaque_hooks["ne"] = lambda it, a, b: Sql(("!=", term_of(a), term_of(b)))
    L = vm.loader
    L.externals[("sqlalchemy", "and_")] = Builtin("and_", lambda it, fr, a, k: Sql(("and",) + tuple(term_of(x) for x in a)))
    L.externals[("sqlalchemy", "or_")] = Builtin("or_", lambda it, fr, a, k: Sql(("or",) + tuple(term_of(x) for x in a)))
    L.externals[("sqlalchemy", "literal")] = Builtin("literal", lambda it, fr, a, k: Sql(("literal", term_of(a[0]))))
    L.externals[("sqlalchemy", "not_")] = Builtin("not_", lambda it, fr, a, k: Sql(("not", term_of(a[0]))))
    L.externals[("sqlalchemy", "func")] = SqlFunc()
    L.externals[("sqlalchemy", "select")] = Builtin("select", lambda it, fr, a, k: Statement(("select", a[0])))


class SqlFunc(Opaque):
    """sqlalchemy.func: func.<name>(args) is the SQL function call"""

    def __init__(self):
        super().__init__("sqlalchemy.func")

    def m_getattr(self, vm, name):
        return Builtin("func." + name, lambda it, fr, a, k: Sql(("fn:" + name,) + tuple(term_of(x) for x in a)))


class Statement(Opaque):
    def __init__(self, term):
        super().__init__("statement")
        self.term = term

    def m_getattr(self, vm, name):
        if name == "where":
            return Builtin("where", lambda it, fr, a, k: Statement(self.term + (("where", term_of(a[0])),)))
        if name == "join":
            return Builtin("join", lambda it, fr, a, k: Statement(self.term + (("join",) + tuple(a),)))
        vm.raise_("AttributeError", name)


def translator(vm, selected=None, select_like=None):
    sel = select_like or vm.alloc(vm.ext("object"), {"selected_variable": selected}, tag="select-like")
    q = vm.alloc(vm.ext("object"), {"_child_": sel}, tag="query")
    jm = vm.call(cls(vm, EI, "JoinManager"), [], {})
    return vm.alloc(cls(vm, EI, "EQLTranslator"), {"eql_query": q, "session": "session", "sql_query": None, "join_manager": jm}, tag="translator")


def is_translation_error(vm, pr, name=None):
    ok = vm.is_subclass(pr.exc.cls, cls(vm, EI, "EQLTranslationError")) is True
    return ok and (name is None or pr.exc.cls.name == name)


# ------------------------------------------------------------------------------------------------ dispatch / rejection
def expression_classes(vm):
    out = []
    for modname in (SYM, CS, "krrood.entity_query_language.predicate", "krrood.entity_query_language.conclusion"):
        m = vm.loader.module(modname, must=False)
        if m is None:
            continue
        SE = cls(vm, SYM, "SymbolicExpression")
        for c in m.classes.values():
            try:
                if vm.is_subclass(c, SE) is True:
                    out.append(c)
            except Exception:
                pass
    return out


def h_dispatch():
    def run(vm):
        ctx = vm.ctx
        install_sql(vm)
        t = translator(vm)
        calls = []
        for m in ("translate_and", "translate_or", "translate_comparator", "translate_attribute"):
            vm.spec.stubs[f"EQLTranslator.{m}"] = lambda it, a, k, m=m: calls.append(m) or Sql((m,))
        table = {"AND": "translate_and", "OR": "translate_or", "Comparator": "translate_comparator", "Attribute": "translate_attribute"}
        roots = {n: cls(vm, SYM, n) for n in table}
        n_accepted = n_rejected = 0
        for c in expression_classes(vm):
            node = vm.alloc(c, {}, tag=f"node-{c.name}")
            want = None
            for n in ("AND", "OR", "Comparator", "Attribute"):        # the order of the isinstance tests in the code
                if vm.is_subclass(c, roots[n]) is True:
                    want = table[n]
                    break
            del calls[:]
            try:
                r = vm.call_method(t, "translate_query", node)
                ok = want is not None and calls == [want]
                n_accepted += 1
            except PyRaise as pr:
                ok = want is None and is_translation_error(vm, pr, "UnsupportedQueryTypeError") and not calls
                n_rejected += 1
            ctx.check("EQLTranslator.translate_query::conjunctions-disjunctions-comparisons-attributes-are-translated-everything-else-is-rejected",
                      z3.BoolVal(ok), detail=f"{c.name}: calls={calls} expected {want or 'UnsupportedQueryTypeError'}")
        ctx.check("EQLTranslator.translate_query::the-expression-vocabulary-was-enumerated", z3.BoolVal(n_accepted >= 4 and n_rejected >= 8), detail=f"{n_accepted} accepted, {n_rejected} rejected")
        ctx.inputs["classes"] = f"{n_accepted} accepted / {n_rejected} rejected"
    return Harness("dispatch", run, spec=Spec())


def h_logical():
    def run(vm):
        ctx = vm.ctx
        install_sql(vm)
        t = translator(vm)
        l, r = vm.alloc(vm.ext("object"), tag="left"), vm.alloc(vm.ext("object"), tag="right")
        for kind, comb in (("AND", "and"), ("OR", "or")):
            for lj, rj in ((False, False), (True, False), (False, True), (True, True)):
                parts = {id(l): None if lj else Sql(("L",)), id(r): None if rj else Sql(("R",))}
                seen = []
                vm.spec.stubs["EQLTranslator.translate_query"] = lambda it, a, k, parts=parts, seen=seen: (seen.append(a[1]), parts[id(a[1])])[1]
                node = vm.alloc(cls(vm, SYM, kind), {"left": l, "right": r}, tag=kind)
                got = vm.call_method(t, "translate_and" if kind == "AND" else "translate_or", node)
                if not lj and not rj:
                    ok = isinstance(got, Sql) and got.term == (comb, ("L",), ("R",))
                elif lj and rj:
                    ok = got is None
                else:
                    ok = isinstance(got, Sql) and got.term == (("R",) if lj else ("L",))
                ctx.check(f"EQLTranslator.translate_{comb}::the-sql-{comb}-of-both-operands-parts-that-became-joins-dropped", z3.BoolVal(ok and seen == [l, r]), detail=f"{kind} {lj} {rj}: {got!r}")
    return Harness("logical", run, spec=Spec())


def h_operators():
    def run(vm):
        ctx = vm.ctx
        install_sql(vm)
        om = vm.alloc(cls(vm, EI, "OperatorMapper"), {}, tag="mapper")
        col, lit = Sql(("col",)), 3
        ops = {"eq": "==", "gt": ">", "lt": "<", "ge": ">=", "le": "<="}
        for name, sym in ops.items():
            op = vm.alloc(vm.ext("object"), {"__name__": name}, tag=f"operator.{name}")
            got = vm.call_method(om, "map_comparison_operator", op, col, lit)
            ctx.check("OperatorMapper.map_comparison_operator::each-comparison-maps-to-the-same-sql-comparison",
                      z3.BoolVal(isinstance(got, Sql) and got.term == (sym, ("col",), 3)), detail=f"{name}: {got!r}")
        # ... whichever side the column is on: `3 < col` stays `3 < col` (it is not read as `col < 3`)
        for name, sym in ops.items():
            op = vm.alloc(vm.ext("object"), {"__name__": name}, tag=f"operator.{name}")
            got = vm.call_method(om, "map_comparison_operator", op, lit, col)
            mirror = {"==": "==", "<": ">", ">": "<", "<=": ">=", ">=": "<="}[sym]
            ok = isinstance(got, Sql) and got.term in ((sym, 3, ("col",)), (mirror, ("col",), 3))
            ctx.check("OperatorMapper.map_comparison_operator::a-value-on-the-left-keeps-the-direction-of-the-comparison", z3.BoolVal(ok), detail=f"{name}(3, col): {got!r}")
            got = vm.call_method(om, "map_comparison_operator", op, col, Sql(("col2",)))
            ctx.check("OperatorMapper.map_comparison_operator::two-columns-keep-their-sides", z3.BoolVal(isinstance(got, Sql) and got.term in ((sym, ("col",), ("col2",)), (mirror, ("col2",), ("col",)))),
                      detail=f"{name}(col, col2): {got!r}")
        op = vm.alloc(vm.ext("object"), {"__name__": "ne"}, tag="operator.ne")
        got = vm.call_method(om, "map_comparison_operator", op, col, lit)
        ctx.check("OperatorMapper.map_comparison_operator::inequality-is-null-safe", z3.BoolVal(isinstance(got, Sql) and got.term == ("is_distinct_from", ("col",), 3)), detail=repr(got))
        got = vm.call_method(om, "map_comparison_operator", op, 3, col)
        ctx.check("OperatorMapper.map_comparison_operator::inequality-is-null-safe-with-the-column-on-the-right",
                  z3.BoolVal(isinstance(got, Sql) and got.term == ("is_distinct_from", ("col",), 3)), detail=repr(got))
        op = vm.alloc(vm.ext("object"), {"__name__": "matmul"}, tag="operator.matmul")
        try:
            vm.call_method(om, "map_comparison_operator", op, col, lit)
            ok = False
        except PyRaise as pr:
            ok = is_translation_error(vm, pr, "UnsupportedOperatorError")
        ctx.check("OperatorMapper.map_comparison_operator::an-unknown-operator-is-rejected", z3.BoolVal(ok))
    return Harness("operators", run, spec=Spec())


def h_attribute_guard():
    def run(vm):
        ctx = vm.ctx
        install_sql(vm)
        Var, Attr = cls(vm, SYM, "Variable"), cls(vm, SYM, "Attribute")
        typ = vm.alloc(vm.ext("object"), tag="T")
        selected = vm.alloc(Var, {"_type_": typ, "_id_": 1}, tag="selected")
        other = vm.alloc(Var, {"_type_": typ, "_id_": 2}, tag="other-variable")
        dao = vm.alloc(vm.ext("object"), tag="TDAO")
        case = vm.ctx.choice(5, "case")
        t = translator(vm, selected=selected)
        vm.spec.stubs["krrood.ormatic.dao:get_dao_class"] = lambda it, a, k: (None if case == 3 else dao)
        walked = []
        vm.spec.stubs["EQLTranslator._walk_attribute_chain"] = lambda it, a, k: walked.append((a[1], list(a[2].items) if isinstance(a[2], PyList) else a[2])) or Sql(("column",))
        leaf = {0: selected, 1: other, 2: other, 3: selected, 4: selected}[case]
        if case == 4:
            leaf = vm.alloc(Var, {"_type_": None, "_id_": 3}, tag="untyped")
        for v in (selected, other, leaf):
            v.fields["_var_"] = v                      # a variable is its own variable (keeps the symbolic __getattr__ out of the way)
        if case == 2:
            vm.call_method(t.fields["join_manager"], "add_table_join", dao)
        chain = vm.alloc(Attr, {"_attr_name_": "b", "_var_": leaf, "_type_": None,
                                "_child_": vm.alloc(Attr, {"_attr_name_": "a", "_child_": leaf, "_var_": leaf, "_type_": None}, tag="x.a")}, tag="x.a.b")
        try:
            r = vm.call_method(t, "translate_attribute", chain)
            raised = None
        except PyRaise as pr:
            r, raised = None, pr
        if case == 0:
            ctx.check("EQLTranslator.translate_attribute::a-chain-from-the-selected-variable-is-walked-base-to-leaf",
                      z3.BoolVal(raised is None and walked == [(dao, ["a", "b"])] and isinstance(r, Sql)), detail=repr(walked))
        elif case == 1:
            ctx.check("EQLTranslator.translate_attribute::a-chain-from-a-variable-that-is-neither-selected-nor-joined-is-rejected",
                      z3.BoolVal(raised is not None and is_translation_error(vm, raised) and not walked), detail=repr(raised))
        elif case == 2:
            ctx.check("EQLTranslator.translate_attribute::a-chain-from-a-joined-variable-is-translated", z3.BoolVal(raised is None and walked == [(dao, ["a", "b"])]), detail=repr(raised))
        elif case == 3:
            ctx.check("EQLTranslator.translate_attribute::a-type-without-dao-is-rejected", z3.BoolVal(raised is not None and is_translation_error(vm, raised, "MissingDAOError") and not walked))
        else:
            ctx.check("EQLTranslator.translate_attribute::a-chain-without-a-typed-leaf-is-rejected",
                      z3.BoolVal(raised is not None and is_translation_error(vm, raised, "AttributeResolutionError") and not walked), detail=repr(raised))
        ctx.cover(f"case{case}")
    return Harness("attribute-guard", run, spec=Spec(), covers=[f"case{i}" for i in range(5)])


def h_evaluate_and_translate():
    def run(vm):
        ctx = vm.ctx
        install_sql(vm)
        An, The, Var = cls(vm, SYM, "An"), cls(vm, SYM, "The"), cls(vm, SYM, "Variable")
        which = ctx.choice(3, "quantifier")
        t = translator(vm)
        t.fields["eql_query"] = vm.alloc([An, The, Var][which], {"_child_": t.fields["eql_query"].fields["_child_"]}, tag="quantifier")
        t.fields["sql_query"] = "STATEMENT"
        calls = []
        bound = vm.alloc(vm.ext("object"), {"one": Builtin("one", lambda it, fr, a, k: calls.append("one") or "the-row"),
                                            "all": Builtin("all", lambda it, fr, a, k: calls.append("all") or "all-rows")}, tag="result")
        t.fields["session"] = vm.alloc(vm.ext("object"), {"scalars": Builtin("scalars", lambda it, fr, a, k: calls.append(("scalars", a[0])) or bound)}, tag="session")
        try:
            r = vm.call_method(t, "evaluate")
            raised = None
        except PyRaise as pr:
            r, raised = None, pr
        if which == 0:
            ctx.check("EQLTranslator.evaluate::an-returns-all-rows-of-the-statement", z3.BoolVal(r == "all-rows" and calls == [("scalars", "STATEMENT"), "all"]), detail=repr(calls))
        elif which == 1:
            ctx.check("EQLTranslator.evaluate::the-demands-exactly-one-row", z3.BoolVal(r == "the-row" and calls == [("scalars", "STATEMENT"), "one"]), detail=repr(calls))
        else:
            ctx.check("EQLTranslator.evaluate::any-other-quantifier-is-rejected", z3.BoolVal(raised is not None and is_translation_error(vm, raised, "UnsupportedQuantifierError")))
        # translate(): selects the DAO of the selected type; the translated condition becomes the WHERE clause; no DAO -> rejected
        typ, dao = vm.alloc(vm.ext("object"), tag="T"), vm.alloc(vm.ext("object"), tag="TDAO")
        sel = vm.alloc(Var, {"_type_": typ}, tag="selected")
        sel.fields["_var_"] = sel
        has_dao = ctx.choice(2, "dao-exists?") == 0
        cond = ctx.choice(2, "condition-translates-to-sql?") == 0
        t2 = translator(vm, selected=sel)
        t2.fields["eql_query"].fields["_child_"].fields["_child_"] = "ROOT-CONDITION"
        vm.spec.stubs["krrood.ormatic.dao:get_dao_class"] = lambda it, a, k: dao if (has_dao and a[0] is typ) else None
        seen = []
        vm.spec.stubs["EQLTranslator.translate_query"] = lambda it, a, k: seen.append(a[1]) or (Sql(("COND",)) if cond else None)
        try:
            vm.call_method(t2, "translate")
            st = t2.fields["sql_query"]
            want = ("select", dao, ("where", ("COND",))) if cond else ("select", dao)
            ok = has_dao and isinstance(st, Statement) and st.term == want and seen == ["ROOT-CONDITION"]
        except PyRaise as pr:
            ok = (not has_dao) and is_translation_error(vm, pr, "MissingDAOError") and not seen
        ctx.check("EQLTranslator.translate::selects-the-dao-of-the-selected-type-filtered-by-the-translated-condition-or-rejects", z3.BoolVal(ok), detail=repr(t2.fields.get("sql_query")))
    return Harness("evaluate-and-translate", run, spec=Spec())


def h_walk_chain():
    def run(vm):
        ctx = vm.ctx
        install_sql(vm)
        t = translator(vm)
        dao = vm.alloc(vm.ext("object"), {"x": Sql(("TDAO.x",)), "__name__": "TDAO"}, tag="TDAO")
        insp = vm.alloc(vm.ext("object"), {"inspect": Builtin("inspect", lambda it, fr, a, k: "mapper")}, tag="sqlalchemy.inspection")
        vm.loader.externals[("sqlalchemy", "inspection")] = insp
        vm.spec.stubs["RelationshipResolver._find_relationship"] = lambda it, a, k: None
        vm.spec.opaque_hooks["getattr"] = lambda it, o, name: it.raise_("AttributeError", name)
        got = vm.call_method(t, "_walk_attribute_chain", dao, PyList(["x"]))
        ctx.check("EQLTranslator._walk_attribute_chain::a-plain-column-is-the-column-of-the-dao", z3.BoolVal(isinstance(got, Sql) and got.term == ("TDAO.x",)), detail=repr(got))
        for names, label in ((["x", "y"], "a-scalar-in-the-middle-of-a-chain-is-rejected"), (["nope"], "an-unknown-column-is-rejected"), ([], "an-empty-chain-is-rejected")):
            try:
                vm.call_method(t, "_walk_attribute_chain", dao, PyList(list(names)))
                ok = False
            except PyRaise as pr:
                ok = is_translation_error(vm, pr, "AttributeResolutionError")
            ctx.check(f"EQLTranslator._walk_attribute_chain::{label}", z3.BoolVal(ok))
    return Harness("walk-chain", run, spec=Spec())


class Entity_(Opaque):
    """a mapped DAO class or an alias of one (assumed contract of sqlalchemy.orm.aliased: a NEW FROM element for the same mapped
    class; an attribute of the alias is a column / relationship attribute of THAT FROM element)"""
    counter = [0]

    def __init__(self, name, alias_of=None):
        super().__init__("entity:" + name)
        self.name, self.alias_of = name, alias_of

    def m_getattr(self, vm, name):
        if name == "__name__":
            return self.name
        return Sql((self.name + "." + name,))

    def m_truth(self, vm):
        return True

    def m_hash(self, vm):
        return id(self)

    def __repr__(self):
        return f"<{self.name}>"


def h_relationship_chain():
    """x.r1.r2.c : every relationship on the way is joined ONCE through an alias of its own, the ON clause of each hop is the
    relationship attribute of the FROM element the hop starts from (the selected class for the first hop, the PREVIOUS alias for
    every later hop), and the final column is a column of the last alias.  Anchoring a later hop at the un-aliased declaring class
    compares against the selected row itself.  Assumed: sqlalchemy.inspection.inspect(entity) gives the mapper of the entity's
    class; relationship.entity.class_ is the target class; relationship.class_attribute is the attribute of the un-aliased
    declaring class."""
    def run(vm):
        ctx = vm.ctx
        install_sql(vm)
        t = translator(vm)
        t.fields["sql_query"] = Statement(("select", "ConnDAO"))
        Conn, Body, World = Entity_("ConnDAO"), Entity_("BodyDAO"), Entity_("WorldDAO")
        made = []

        def aliased(it, fr, a, k):
            Entity_.counter[0] += 1
            al = Entity_(f"alias{len(made) + 1}({a[0].name})", alias_of=a[0])
            made.append(al)
            return al
        vm.loader.externals[("sqlalchemy.orm", "aliased")] = Builtin("aliased", aliased)
        insp = vm.alloc(vm.ext("object"), {"inspect": Builtin("inspect", lambda it, fr, a, k: ("mapper-of", a[0].alias_of or a[0]))}, tag="sqlalchemy.inspection")
        vm.loader.externals[("sqlalchemy", "inspection")] = insp
        rels = {(Conn, "parent"): Body, (Body, "world"): World}

        def find_relationship(it, a, k):
            mapper, name = a[1], a[2]
            target = rels.get((mapper[1], name))
            if target is None:
                return None
            ent = it.alloc(it.ext("object"), {"class_": target}, tag="relationship-entity")
            return it.alloc(it.ext("object"), {"entity": ent, "key": name, "class_attribute": Sql((mapper[1].name + "." + name + "@declaring-class",)),
                                               "local_columns": PyList([])}, tag=f"relationship-{name}")
        vm.spec.stubs["RelationshipResolver._find_relationship"] = find_relationship
        vm.spec.opaque_hooks["hasattr"] = lambda it, o, name: True
        vm.spec.opaque_hooks["hash"] = lambda it, o: id(o)
        col = vm.call_method(t, "_walk_attribute_chain", Conn, PyList(["parent", "world", "id"]))
        joins = [x for x in t.fields["sql_query"].term if isinstance(x, tuple) and x and x[0] == "join"]
        ok = (len(made) == 2 and len(joins) == 2
              # (first hop: the selected class is not aliased, its own attribute and the declaring class's attribute are the same element)
              and joins[0][1] is made[0] and term_of(joins[0][2]) in (("ConnDAO.parent",), ("ConnDAO.parent@declaring-class",))
              and joins[1][1] is made[1] and term_of(joins[1][2]) == (made[0].name + ".world",)
              and made[0].alias_of is Body and made[1].alias_of is World)
        ctx.check("EQLTranslator._walk_attribute_chain::every-hop-is-joined-through-its-own-alias-on-the-attribute-of-the-element-it-starts-from",
                  z3.BoolVal(bool(ok)), detail=f"aliases {made}; joins {[(j[1], term_of(j[2])) for j in joins if len(j) > 2]}")
        ctx.check("EQLTranslator._walk_attribute_chain::the-column-is-a-column-of-the-last-alias",
                  z3.BoolVal(isinstance(col, Sql) and len(made) == 2 and col.term == (made[1].name + ".id",)), detail=repr(col))
        # the same path again (another condition of the same query): no second join, the same alias
        n_before = len(joins)
        col2 = vm.call_method(t, "_walk_attribute_chain", Conn, PyList(["parent", "world", "name"]))
        joins2 = [x for x in t.fields["sql_query"].term if isinstance(x, tuple) and x and x[0] == "join"]
        ctx.check("EQLTranslator._walk_attribute_chain::a-path-joined-before-is-reused-not-joined-again",
                  z3.BoolVal(len(joins2) == n_before and len(made) == 2 and isinstance(col2, Sql) and col2.term == (made[1].name + ".name",)), detail=f"{joins2}, {col2!r}")
        # ... and a fresh translation starts without joins (whatever earlier translations did)
        t2 = translator(vm)
        t2.fields["sql_query"] = Statement(("select", "ConnDAO"))
        col3 = vm.call_method(t2, "_walk_attribute_chain", Conn, PyList(["parent", "name"]))
        joins3 = [x for x in t2.fields["sql_query"].term if isinstance(x, tuple) and x and x[0] == "join"]
        ctx.check("EQLTranslator._walk_attribute_chain::a-new-translation-joins-the-paths-it-uses-itself",
                  z3.BoolVal(len(joins3) == 1 and len(made) == 3 and joins3[0][1] is made[2] and isinstance(col3, Sql) and col3.term == (made[2].name + ".name",)),
                  detail=f"{joins3}, {col3!r}")
    return Harness("relationship-chain", run, spec=Spec())


def h_membership():
    """contains / in_ : a literal collection and an attribute become `column IN (values)` (negated for not_contains); a literal on
    the other side likewise; the decision is taken on the EQL node kinds, the operands are translated once each."""
    def run(vm):
        ctx = vm.ctx
        install_sql(vm)
        Lit, Attr, Cmp = cls(vm, SYM, "Literal"), cls(vm, SYM, "Attribute"), cls(vm, SYM, "Comparator")
        t = translator(vm)
        col = Sql(("T.x",))
        vm.spec.stubs["EQLTranslator.translate_attribute"] = lambda it, a, k: col
        vm.spec.stubs["EQLTranslator._is_attribute_equality_join"] = lambda it, a, k: False
        cases = [("in_", PyList([1, 7]), ("in", ("T.x",), [1, 7]), False), ("contains", PyList([1, 7]), ("in", ("T.x",), [1, 7]), False),
                 ("in_", PyList([]), ("in", ("T.x",), []), False), ("in_", PyList([5]), ("in", ("T.x",), [5]), False),
                 # a collection with ONE text is still a collection (membership), not a text to search in
                 ("in_", PyList(["Body1TestName"]), ("in", ("T.x",), ["Body1TestName"]), False), ("contains", PyList(["ab"]), ("in", ("T.x",), ["ab"]), False),
                 ("in_", PyList(["a", "b"]), ("in", ("T.x",), ["a", "b"]), False)]
        for opname, values, want, neg in cases:
            lit = vm.alloc(Lit, {}, tag="literal-list")
            vm.spec.stubs["DomainValueExtractor.extract_from_literal"] = lambda it, a, k, values=values: values
            attr = vm.alloc(Attr, {"_attr_name_": "x"}, tag="attribute")
            op = vm.alloc(vm.ext("object"), {"__name__": opname}, tag=f"operator-{opname}")
            node = vm.alloc(Cmp, {"left": lit, "right": attr, "operation": op}, tag="comparator")
            got = vm.call_method(t, "translate_comparator", node)

            def norm(x):
                if isinstance(x, PyList):
                    return [norm(i) for i in x.items]
                if isinstance(x, tuple):
                    return tuple(norm(i) for i in x)
                return x
            ok = isinstance(got, Sql) and norm(got.term) == want
            ctx.check("EQLTranslator.translate_comparator::a-literal-collection-and-an-attribute-become-column-IN-values", z3.BoolVal(ok), detail=f"{opname} {values!r}: {got!r}")
    return Harness("membership", run, spec=Spec())


def h_string_containment():
    """contains / in_ between a text and a column (either way round) or two columns is SQL's exact substring test
    instr(container, item) > 0 -- the meaning of Python's `item in container` for strings -- and its negation for not_contains;
    never a LIKE pattern match (the text's "_" / "%" would be wildcards, and LIKE folds case on SQLite)."""
    def run(vm):
        ctx = vm.ctx
        install_sql(vm)
        om = vm.alloc(cls(vm, EI, "OperatorMapper"), {}, tag="mapper")
        col, col2 = Sql(("T.name",)), Sql(("U.name",))
        forms = [("text-contains-column", "some text", col, ("fn:instr", ("literal", "some text"), ("T.name",))),
                 ("column-contains-text", col, "txt", ("fn:instr", ("T.name",), ("literal", "txt"))),
                 ("column-contains-column", col, col2, ("fn:instr", ("T.name",), ("U.name",)))]
        for opname in ("contains", "not_contains"):
            op = vm.alloc(vm.ext("object"), {"__name__": opname}, tag=f"operator-{opname}")
            for label, left, right, instr in forms:
                try:
                    got = vm.call_method(om, "map_contains_operator", op, left, right)
                except PyRaise as pr:
                    ctx.fail(f"OperatorMapper.map_contains_operator::{label}-is-the-exact-substring-test", detail=f"{opname}: raised {pr.exc!r}")
                    continue
                want = (">", instr, 0)
                want = ("not", want) if opname == "not_contains" else want
                ctx.check(f"OperatorMapper.map_contains_operator::{label}-is-the-exact-substring-test", z3.BoolVal(isinstance(got, Sql) and got.term == want),
                          detail=f"{opname}: {got!r}, expected {want!r}")
            got = vm.call_method(om, "map_contains_operator", op, "some text", "me t")
            want = ("literal", True) if opname == "contains" else ("not", ("literal", True))
            ctx.check("OperatorMapper.map_contains_operator::two-texts-are-decided-at-translation-time", z3.BoolVal(isinstance(got, Sql) and got.term == want), detail=repr(got))
    return Harness("string-containment", run, spec=Spec())


def h_error_hierarchy():
    """every raise statement of the module raises (a call of) a class below EQLTranslationError"""
    def run(vm):
        ctx = vm.ctx
        m = vm.loader.module(EI)
        tree = ast.parse(open(m.path).read())
        base = cls(vm, EI, "EQLTranslationError")
        bad, n = [], 0
        for node in ast.walk(tree):
            if isinstance(node, ast.Raise) and node.exc is not None:
                n += 1
                e = node.exc.func if isinstance(node.exc, ast.Call) else node.exc
                name = e.id if isinstance(e, ast.Name) else ast.unparse(e)
                c = m.classes.get(name)
                if c is None or vm.is_subclass(c, base) is not True:
                    bad.append(f"line {node.lineno}: raise {name}")
        ctx.check("eql_interface::every-raise-is-an-EQLTranslationError", z3.BoolVal(not bad and n >= 8), detail=f"{n} raise statements; offending: {bad}")
        swallow = [f"line {h.lineno}" for h in ast.walk(tree) if isinstance(h, ast.ExceptHandler) and (h.type is None or ast.unparse(h.type) in ("Exception", "BaseException"))]
        ctx.check("eql_interface::no-handler-swallows-arbitrary-exceptions", z3.BoolVal(not swallow), detail=repr(swallow))
    return Harness("error-hierarchy", run, spec=Spec())


def h_canary():
    def run(vm):
        install_sql(vm)
        om = vm.alloc(cls(vm, EI, "OperatorMapper"), {}, tag="mapper")
        op = vm.alloc(vm.ext("object"), {"__name__": "lt"}, tag="operator.lt")
        got = vm.call_method(om, "map_comparison_operator", op, Sql(("col",)), 3)
        # deliberately false: claims < is translated to >
        vm.ctx.check("CANARY", z3.BoolVal(got.term == (">", ("col",), 3)))
    return Harness("canary", run, expect_fail=True)


def harnesses():
    return [h_dispatch(), h_logical(), h_operators(), h_attribute_guard(), h_evaluate_and_translate(), h_walk_chain(), h_relationship_chain(), h_membership(), h_string_containment(), h_error_hierarchy(), h_canary()]
