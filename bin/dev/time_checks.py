import sys, importlib
sys.path.insert(0,'/verif')
from pyvc.framework import run_harness
mod = importlib.import_module('contracts.'+sys.argv[1])
h=[h for h in mod.harnesses() if sys.argv[2] == h.name][0]
r=run_harness(h)
print(r.undecided, r.error)
for c in sorted(r.checks, key=lambda c:-c.seconds)[:12]:
    print(f"{c.seconds:7.2f}s {c.status:10s} {c.oid} path={c.path}")
