import sys, importlib
sys.path.insert(0,'/verif')
from pyvc.framework import run_harness, aggregate
mod = importlib.import_module('contracts.'+sys.argv[1])
only = sys.argv[2] if len(sys.argv)>2 else None
res=[]
for h in mod.harnesses():
    if only and only not in h.name: continue
    r = run_harness(h)
    res.append(r)
    print(f"{h.name}: paths={r.paths} cut={r.cut} checks={len(r.checks)} undecided={r.undecided} covers={sorted(r.covers)} solver={r.solver_s:.2f}s wall={r.wall_s:.2f}")
    if r.error: print(r.error)
agg = aggregate(res)
for oid,o in agg.items():
    print(f"  {o['status']:11s} {oid} x{o['instances']}" + (f"  {o['models'][0]}" if o['status']!='discharged' else ''))
