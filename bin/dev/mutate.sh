#!/bin/bash
# bin/dev/mutate.sh <Cxx> <file-relative-to-src> <python-replace-old> <python-replace-new> [harness-substr]
# copies /repo/src to /tmp/mut, applies one textual replacement (must match exactly once) and runs the harnesses on it
set -e
rm -rf /tmp/mut; mkdir -p /tmp/mut; cp -r /repo/src /tmp/mut/src
python3 - "$2" "$3" "$4" <<'P'
import sys
p='/tmp/mut/src/'+sys.argv[1]; s=open(p).read(); old=sys.argv[2].encode().decode('unicode_escape'); new=sys.argv[3].encode().decode('unicode_escape')
assert s.count(old)==1, f"{s.count(old)} matches"
open(p,'w').write(s.replace(old,new))
P
cd /verif; KRROOD_REPO=/tmp/mut python3-vt bin/dev/run_harnesses.py $1 $5 2>&1 | grep -v "discharged\|CANARY" | grep -v "^[a-z-]*: paths"
