import sys, importlib, traceback
sys.path.insert(0,'/verif')
from pyvc.ctx import Ctx, Stats, Unsupported
from pyvc.framework import get_loader, reset_loader_state
from pyvc.vm import VM
mod = importlib.import_module('contracts.'+sys.argv[1])
h=[h for h in mod.harnesses() if sys.argv[2] in h.name][0]
ctx=Ctx([],Stats()); loader=get_loader(); vm=VM(loader,ctx,h.spec)
try: h.fn(vm)
except Exception as e:
    tb=traceback.extract_tb(e.__traceback__)
    for f in tb[-14:]: print(f.filename.split('/')[-1], f.lineno, f.name, '|', f.line)
    print(type(e).__name__, e)
